package rules

// PAIR-cache: derived state that a refactoring added to the URL record or to the parameter list follows its sources.
//
// A field of Url, SearchParams or path that the reference inventory (spec/names.json) does not know is new state. If
// some function fills it (stores something other than a zero value) from other fields of these records — the fields
// the filling function and the module functions it calls read are its sources — it is a cache, and the property that a
// getter or serializer returns what the record holds now only survives if every write to a source is accompanied by a
// write to the cache (an invalidation or a refill). The rule looks at every site that dirties a source — a store into
// a source field of an object that already existed, or a call of a module function that may do so and does not itself
// always write the cache — and requires, in the same function, a write to the cache that dominates the site or lies on
// every path from it to a return; where the function has neither, the obligation moves to its callers, and it is a
// violation when it arrives at an exported function (or at a function nobody calls). Objects created in the function
// (or handed over as a nil / fresh argument) are exempt: nothing can have been cached for them.
//
// With no such field in the tree the rule has one trivial obligation per record type.

import (
	"fmt"
	"go/constant"
	"go/token"
	"go/types"
	"sort"
	"strings"

	"golang.org/x/tools/go/ssa"

	"wucheck/core"
)

var cacheOwners = map[string]bool{"Url": true, "SearchParams": true, "path": true, "NameValuePair": true}

func referenceFields(c *Ctx) map[string]bool {
	return c.Memo("referenceFields", func() interface{} {
		m := map[string]bool{}
		var inv struct {
			Entities []struct {
				Kind, Pkg, Owner, Name string
			} `json:"entities"`
		}
		readSpec(c, "names.json", &inv)
		for _, e := range inv.Entities {
			if e.Kind == "field" {
				m[e.Owner+":"+e.Name] = true
			}
		}
		return m
	}).(map[string]bool)
}

func isZeroConst(v ssa.Value) bool {
	k, ok := v.(*ssa.Const)
	if !ok {
		return false
	}
	if k.Value == nil {
		return true
	}
	switch k.Value.Kind() {
	case constant.Bool:
		return !constant.BoolVal(k.Value)
	case constant.String:
		return constant.StringVal(k.Value) == ""
	case constant.Int, constant.Float:
		return constant.Sign(k.Value) == 0
	}
	return false
}

// storedField: the record field a store writes — directly, or an element of the slice / pointee held in it.
func storedField(addr ssa.Value) (string, ssa.Value, bool) {
	for i := 0; i < 4; i++ {
		switch x := addr.(type) {
		case *ssa.FieldAddr:
			el := fieldElem(x.X.Type(), x.Field)
			if cacheOwners[strings.SplitN(el, ":", 2)[0]] {
				return el, x.X, true
			}
			addr = x.X
		case *ssa.IndexAddr:
			addr = x.X
		case *ssa.UnOp:
			if x.Op != token.MUL {
				return "", nil, false
			}
			addr = x.X
		default:
			return "", nil, false
		}
	}
	return "", nil, false
}

// objRoots: the parameters of f an object value may come from (through phis, field loads and conversions); fresh=true
// if every origin is an allocation or the result of a call.
func objRoots(v ssa.Value, f *ssa.Function) (params map[int]bool, fresh bool) {
	params = map[int]bool{}
	fresh = true
	seen := map[ssa.Value]bool{}
	var walk func(v ssa.Value, d int)
	walk = func(v ssa.Value, d int) {
		if seen[v] || d > 12 {
			if d > 12 {
				fresh = false
			}
			return
		}
		seen[v] = true
		switch x := v.(type) {
		case *ssa.Parameter:
			for i, p := range f.Params {
				if p == x {
					params[i] = true
				}
			}
			fresh = false
		case *ssa.FreeVar, *ssa.Global:
			fresh = false
		case *ssa.Alloc:
			// a local variable holding the pointer: what was stored into it
			if _, isPtr := x.Type().(*types.Pointer).Elem().Underlying().(*types.Pointer); isPtr {
				for _, r := range *x.Referrers() {
					if st, ok := r.(*ssa.Store); ok && st.Addr == ssa.Value(x) {
						walk(st.Val, d+1)
					}
				}
			}
		case *ssa.Phi:
			for _, e := range x.Edges {
				walk(e, d+1)
			}
		case *ssa.UnOp:
			if x.Op == token.MUL {
				walk(x.X, d+1)
			} else {
				fresh = false
			}
		case *ssa.FieldAddr:
			walk(x.X, d+1)
		case *ssa.IndexAddr:
			walk(x.X, d+1)
		case *ssa.ChangeType:
			walk(x.X, d+1)
		case *ssa.Call:
			// the result of a call: a new object unless it is an accessor of one of the parameters
			if cl := x.Common().StaticCallee(); cl != nil && len(x.Common().Args) > 0 && namedOf(x.Type()) != "" && cacheOwners[namedOf(x.Type())] && cl.Signature.Recv() != nil && !strings.HasPrefix(cl.Name(), "New") && !strings.HasPrefix(cl.Name(), "new") && !strings.Contains(strings.ToLower(cl.Name()), "clone") {
				walk(x.Common().Args[0], d+1)
			}
		case *ssa.Const:
		case *ssa.MakeSlice, *ssa.Slice, *ssa.Extract:
		default:
			fresh = false
		}
	}
	walk(v, 0)
	return
}

func init() {
	register(&Rule{
		Name:  "PAIR-cache",
		Doc:   "a field of Url / SearchParams / path that the reference inventory does not know and that some function fills from other fields of these records is a cache: every site that dirties one of its sources (a store into a source field of an object that existed before, a call of a function that may do so without always writing the cache) has, in the same function, a write to the cache that dominates it or lies on every path from it to a return, or the obligation moves to the callers; it must not arrive at an exported function",
		Props: []string{"C03", "C04", "C12"},
		Floor: 1,
		Run: func(c *Ctx, s *core.Sink) {
			known := referenceFields(c)
			type fieldInfo struct {
				el    string
				fills []*ssa.Store
				pos   token.Pos
			}
			news := map[string]*fieldInfo{}
			for _, f := range c.P.ModFns {
				for _, b := range f.Blocks {
					for _, ins := range b.Instrs {
						st, ok := ins.(*ssa.Store)
						if !ok {
							continue
						}
						fa, ok := st.Addr.(*ssa.FieldAddr)
						if !ok {
							continue
						}
						el := fieldElem(fa.X.Type(), fa.Field)
						owner := strings.SplitN(el, ":", 2)[0]
						if !cacheOwners[owner] || owner == "NameValuePair" || known[el] {
							continue
						}
						fi := news[el]
						if fi == nil {
							fi = &fieldInfo{el: el, pos: st.Pos()}
							news[el] = fi
						}
						if !isZeroConst(st.Val) {
							fi.fills = append(fi.fills, st)
						}
					}
				}
			}
			if len(news) == 0 {
				s.Obs = append(s.Obs, core.Obligation{Rule: s.Rule, Construct: "cache/none", Pos: "-", Verdict: core.Discharged, Fact: "Url, SearchParams and path have no field beyond the reference inventory: no derived state to keep in step", Props: s.Props, Trivial: true})
				return
			}
			var names []string
			for el := range news {
				names = append(names, el)
			}
			sort.Strings(names)
			for _, el := range names {
				fi := news[el]
				props := []string{"C03", "C04"}
				if strings.HasPrefix(el, "SearchParams:") {
					props = []string{"C12"}
				}
				if len(fi.fills) == 0 {
					s.OK("cache/"+el, c.P.Pos(fi.pos), "new field that is only ever cleared: not a cache", props...)
					continue
				}
				// sources: record fields read by the filling functions and what they call
				deps := map[string]bool{}
				seenFn := map[*ssa.Function]bool{}
				var reads func(f *ssa.Function, d int)
				reads = func(f *ssa.Function, d int) {
					if seenFn[f] || d > 5 || len(f.Blocks) == 0 {
						return
					}
					seenFn[f] = true
					for _, b := range f.Blocks {
						for _, ins := range b.Instrs {
							switch x := ins.(type) {
							case *ssa.UnOp:
								if x.Op == token.MUL {
									if fa, ok := x.X.(*ssa.FieldAddr); ok {
										e := fieldElem(fa.X.Type(), fa.Field)
										if cacheOwners[strings.SplitN(e, ":", 2)[0]] && news[e] == nil {
											deps[e] = true
										}
									}
								}
							case *ssa.Field:
								e := fieldElem(x.X.Type(), x.Field)
								if cacheOwners[strings.SplitN(e, ":", 2)[0]] && news[e] == nil {
									deps[e] = true
								}
							case ssa.CallInstruction:
								if cl := x.Common().StaticCallee(); cl != nil && c.P.InModule(cl) {
									reads(cl, d+1)
								}
							}
						}
					}
				}
				fillers := map[*ssa.Function]bool{}
				for _, st := range fi.fills {
					fillers[st.Parent()] = true
				}
				// the cache group: the new fields of the same record that the same functions fill (a text and its validity
				// flag): a write to any of them counts as a write to the cache
				group := map[string]bool{el: true}
				for _, o := range names {
					if strings.SplitN(o, ":", 2)[0] != strings.SplitN(el, ":", 2)[0] {
						continue
					}
					for _, st := range news[o].fills {
						if fillers[st.Parent()] {
							group[o] = true
						}
					}
				}
				for _, st := range fi.fills {
					if !sliceReads(c, st, func(e string) {
						if cacheOwners[strings.SplitN(e, ":", 2)[0]] && news[e] == nil {
							deps[e] = true
						}
					}) {
						reads(st.Parent(), 0) // the value could not be followed: everything the filling function reads
					}
				}
				// back pointers and configuration are not content
				for _, e := range []string{"Url:parser", "SearchParams:url", "Url:searchParams", "Url:validationErrors", "Url:inputUrl"} {
					delete(deps, e)
				}
				if len(deps) == 0 {
					s.OK("cache/"+el, c.P.Pos(fi.pos), "new field filled from no other field of the records", props...)
					continue
				}
				// writesCache(f): positions in f that write the cache field (directly or by calling a function that always does)
				always := map[*ssa.Function]bool{}
				writesAt := func(f *ssa.Function) []ssa.Instruction {
					var out []ssa.Instruction
					for _, b := range f.Blocks {
						for _, ins := range b.Instrs {
							switch x := ins.(type) {
							case *ssa.Store:
								if fa, ok := x.Addr.(*ssa.FieldAddr); ok && group[fieldElem(fa.X.Type(), fa.Field)] {
									out = append(out, ins)
								}
							case ssa.CallInstruction:
								if cl := x.Common().StaticCallee(); cl != nil && always[cl] {
									out = append(out, ins)
								}
							}
						}
					}
					return out
				}
				// block b "counts as" its predecessor when it is the non-nil arm of a nil test: `if x != nil { x.invalidate() }`
				lift := func(b *ssa.BasicBlock) *ssa.BasicBlock {
					if len(b.Preds) == 1 {
						if iff, ok := lastIf(b.Preds[0]); ok {
							if bo, ok := iff.Cond.(*ssa.BinOp); ok && (bo.Op == token.EQL || bo.Op == token.NEQ) && (isNilConst(bo.X) || isNilConst(bo.Y)) {
								return b.Preds[0]
							}
						}
					}
					return b
				}
				nilGuardedReturn := func(b *ssa.BasicBlock) bool {
					return lift(b) != b && len(b.Instrs) <= 2
				}
				for round := 0; round < 6; round++ {
					changed := false
					for _, f := range c.P.ModFns {
						if always[f] || len(f.Blocks) == 0 {
							continue
						}
						ws := writesAt(f)
						if len(ws) == 0 {
							continue
						}
						ok := false
						for _, w := range ws {
							wb := lift(w.Block())
							all := true
							for _, b := range f.Blocks {
								if _, isRet := b.Instrs[len(b.Instrs)-1].(*ssa.Return); isRet && !wb.Dominates(b) && !nilGuardedReturn(b) {
									all = false
								}
							}
							if all {
								ok = true
							}
						}
						if ok {
							always[f] = true
							changed = true
						}
					}
					if !changed {
						break
					}
				}
				// dirty(f): parameters through which f may write a source without always writing the cache
				type dirt struct {
					params map[int]bool
					any    bool // a source of an object not tied to a parameter
					why    string
				}
				dirty := map[*ssa.Function]*dirt{}
				type site struct {
					ins   ssa.Instruction
					why   string
					roots map[int]bool
				}
				sitesOf := func(f *ssa.Function) []site {
					var out []site
					for _, b := range f.Blocks {
						for _, ins := range b.Instrs {
							switch x := ins.(type) {
							case *ssa.Store:
								e, obj, ok := storedField(x.Addr)
								if !ok || !deps[e] {
									continue
								}
								ps, fresh := objRoots(obj, f)
								if fresh {
									continue
								}
								out = append(out, site{ins, "writes " + e, ps})
							case ssa.CallInstruction:
								cl := x.Common().StaticCallee()
								if cl == nil || !c.P.InModule(cl) || always[cl] || fillers[cl] {
									continue
								}
								if cl.Object() != nil && cl.Object().Exported() && cl.Parent() == nil {
									continue // an exported function answers for itself
								}
								d := dirty[cl]
								if d == nil {
									continue
								}
								ps := map[int]bool{}
								live := d.any
								for i := range d.params {
									if i >= len(x.Common().Args) {
										live = true
										continue
									}
									a := x.Common().Args[i]
									if isNilConst(a) {
										continue
									}
									aps, fresh := objRoots(a, f)
									if fresh {
										continue
									}
									live = true
									for p := range aps {
										ps[p] = true
									}
								}
								if !live {
									continue
								}
								out = append(out, site{ins, "calls " + core.FuncName(cl) + ", which " + d.why, ps})
							}
						}
					}
					return out
				}
				covered := func(f *ssa.Function, st site) bool {
					if always[f] {
						return true
					}
					for _, w := range writesAt(f) {
						if w == st.ins {
							continue
						}
						wb := lift(w.Block())
						if wb == st.ins.Block() && w.Block() == st.ins.Block() {
							return true // same block: before or after, both keep the cache from outliving the write
						}
						if wb.Dominates(st.ins.Block()) {
							return true
						}
						// every path from the site to a return passes the write
						if mustPassBlock(st.ins.Block(), w.Block()) {
							return true
						}
					}
					return false
				}
				for round := 0; round < 8; round++ {
					changed := false
					for _, f := range c.P.ModFns {
						if len(f.Blocks) == 0 || fillers[f] {
							continue
						}
						for _, st := range sitesOf(f) {
							if covered(f, st) {
								continue
							}
							d := dirty[f]
							if d == nil {
								d = &dirt{params: map[int]bool{}, why: st.why}
								dirty[f] = d
								changed = true
							}
							if len(st.roots) == 0 && !d.any {
								d.any = true
								changed = true
							}
							for p := range st.roots {
								if !d.params[p] {
									d.params[p] = true
									changed = true
								}
							}
						}
					}
					if !changed {
						break
					}
				}
				// verdict at the API: exported functions (and functions nobody in the module calls) that stay dirty
				called := map[*ssa.Function]bool{}
				for _, f := range c.P.ModFns {
					for _, b := range f.Blocks {
						for _, ins := range b.Instrs {
							if ci, ok := ins.(ssa.CallInstruction); ok {
								if cl := ci.Common().StaticCallee(); cl != nil {
									called[cl] = true
								}
							}
						}
					}
				}
				var depNames []string
				for d := range deps {
					depNames = append(depNames, d)
				}
				sort.Strings(depNames)
				nBad := 0
				var fns []*ssa.Function
				for f := range dirty {
					fns = append(fns, f)
				}
				sortFns(fns)
				for _, f := range fns {
					exported := f.Object() != nil && f.Object().Exported() && f.Parent() == nil
					if !exported && called[f] {
						continue
					}
					if f.Parent() != nil {
						continue // a function literal runs inside the call it is handed to (Iterate ends with update())
					}
					for _, st := range sitesOf(f) {
						if covered(f, st) {
							continue
						}
						nBad++
						s.Bad(fmt.Sprintf("cache/%s/%s#%d", el, core.FuncName(f), nBad), c.P.Pos(st.ins.Pos()),
							fmt.Sprintf("%s %s, a source of the cached %s, and neither this function nor a function it calls there writes %s: what was cached before is handed out afterwards", core.FuncName(f), st.why, el, el), props...)
					}
				}
				if nBad == 0 {
					s.OK("cache/"+el, c.P.Pos(fi.pos), fmt.Sprintf("cache filled from %s: every site that dirties a source is accompanied by a write to the cache", strings.Join(depNames, ", ")), props...)
				}
			}
		},
	})
}

// sliceReads: the record fields the value stored by st is computed from — a backward slice through arithmetic,
// conversions, phis, calls (a module callee contributes everything it and its callees read; of a local builder or
// buffer, what was written into it before the store) and loads. ok=false if the slice meets something it cannot follow.
func sliceReads(c *Ctx, st *ssa.Store, add func(el string)) bool {
	f := st.Parent()
	seen := map[ssa.Value]bool{}
	seenFn := map[*ssa.Function]bool{}
	ok := true
	var allReads func(g *ssa.Function, d int)
	allReads = func(g *ssa.Function, d int) {
		if seenFn[g] || d > 5 || len(g.Blocks) == 0 {
			return
		}
		seenFn[g] = true
		for _, b := range g.Blocks {
			for _, ins := range b.Instrs {
				switch x := ins.(type) {
				case *ssa.UnOp:
					if fa, isFa := x.X.(*ssa.FieldAddr); isFa && x.Op == token.MUL {
						add(fieldElem(fa.X.Type(), fa.Field))
					}
				case *ssa.Field:
					add(fieldElem(x.X.Type(), x.Field))
				case ssa.CallInstruction:
					if cl := x.Common().StaticCallee(); cl != nil && c.P.InModule(cl) {
						allReads(cl, d+1)
					}
				}
			}
		}
	}
	before := func(ins ssa.Instruction) bool {
		if ins.Block() == st.Block() {
			for _, i := range st.Block().Instrs {
				if i == ins {
					return true
				}
				if i == ssa.Instruction(st) {
					return false
				}
			}
		}
		// can the instruction's block reach the fill?
		seenB := map[*ssa.BasicBlock]bool{}
		var reach func(b *ssa.BasicBlock) bool
		reach = func(b *ssa.BasicBlock) bool {
			if b == st.Block() {
				return true
			}
			if seenB[b] {
				return false
			}
			seenB[b] = true
			for _, sc := range b.Succs {
				if reach(sc) {
					return true
				}
			}
			return false
		}
		for _, sc := range ins.Block().Succs {
			if reach(sc) {
				return true
			}
		}
		return false
	}
	var walk func(v ssa.Value, d int)
	walk = func(v ssa.Value, d int) {
		if v == nil || seen[v] || !ok {
			return
		}
		if d > 40 {
			ok = false
			return
		}
		seen[v] = true
		switch x := v.(type) {
		case *ssa.Const, *ssa.Parameter, *ssa.Global, *ssa.FreeVar, *ssa.Function, *ssa.Builtin:
		case *ssa.BinOp:
			walk(x.X, d+1)
			walk(x.Y, d+1)
		case *ssa.UnOp:
			if x.Op == token.MUL {
				if fa, isFa := x.X.(*ssa.FieldAddr); isFa {
					add(fieldElem(fa.X.Type(), fa.Field))
					walk(fa.X, d+1)
					return
				}
				if al, isAl := x.X.(*ssa.Alloc); isAl {
					// a local variable: everything stored into it before the fill
					for _, r := range *al.Referrers() {
						if s2, isSt := r.(*ssa.Store); isSt && s2.Addr == ssa.Value(al) {
							walk(s2.Val, d+1)
						}
					}
					return
				}
			}
			walk(x.X, d+1)
		case *ssa.Convert:
			walk(x.X, d+1)
		case *ssa.ChangeType:
			walk(x.X, d+1)
		case *ssa.MakeInterface:
			walk(x.X, d+1)
		case *ssa.Phi:
			for _, e := range x.Edges {
				walk(e, d+1)
			}
		case *ssa.Extract:
			walk(x.Tuple, d+1)
		case *ssa.Slice:
			walk(x.X, d+1)
		case *ssa.Index:
			walk(x.X, d+1)
		case *ssa.IndexAddr:
			walk(x.X, d+1)
		case *ssa.FieldAddr:
			walk(x.X, d+1)
		case *ssa.Field:
			add(fieldElem(x.X.Type(), x.Field))
			walk(x.X, d+1)
		case *ssa.Alloc:
			// a builder / buffer / array: the arguments of the calls that were handed its address before the fill, and
			// what was stored into it
			for _, r := range *x.Referrers() {
				switch y := r.(type) {
				case ssa.CallInstruction:
					if !before(y) {
						continue
					}
					for _, a := range y.Common().Args {
						if a != ssa.Value(x) {
							walk(a, d+1)
						}
					}
					if cl := y.Common().StaticCallee(); cl != nil && c.P.InModule(cl) {
						allReads(cl, 0)
					}
				case *ssa.Store:
					if y.Addr == ssa.Value(x) {
						walk(y.Val, d+1)
					}
				case *ssa.IndexAddr, *ssa.FieldAddr:
					ok = false
				}
			}
		case *ssa.Call:
			for _, a := range x.Common().Args {
				walk(a, d+1)
			}
			if x.Common().IsInvoke() {
				walk(x.Common().Value, d+1)
				return
			}
			if cl := x.Common().StaticCallee(); cl != nil {
				if c.P.InModule(cl) {
					allReads(cl, 0)
				}
				return
			}
			if _, isB := x.Common().Value.(*ssa.Builtin); isB {
				return
			}
			ok = false
		default:
			ok = false
		}
	}
	walk(st.Val, 0)
	_ = f
	return ok
}

// mustPassBlock: every path from block `from` to a return of the function passes block `via` (from != via).
func mustPassBlock(from, via *ssa.BasicBlock) bool {
	if from == via {
		return false
	}
	seen := map[*ssa.BasicBlock]bool{}
	var scan func(b *ssa.BasicBlock) bool
	scan = func(b *ssa.BasicBlock) bool {
		if b == via {
			return true
		}
		if seen[b] {
			return true
		}
		seen[b] = true
		if len(b.Succs) == 0 {
			if _, isPanic := b.Instrs[len(b.Instrs)-1].(*ssa.Panic); isPanic {
				return true
			}
			return false
		}
		for _, sc := range b.Succs {
			if !scan(sc) {
				return false
			}
		}
		return true
	}
	for _, sc := range from.Succs {
		if !scan(sc) {
			return false
		}
	}
	return len(from.Succs) > 0
}
