package rules

import (
	"encoding/json"
	"go/types"
	"os"
	"path/filepath"

	"golang.org/x/tools/go/ssa"

	"wucheck/core"
)

type extFile struct {
	Pure     map[string]string `json:"pure_packages"`
	Stateful map[string]struct {
		Readers []string `json:"readers"`
	} `json:"stateful_types"`
	Functions map[string]struct {
		Mutates      []int  `json:"mutates"`
		Elems        bool   `json:"elems"`
		ReturnsArg   *int   `json:"returns_arg"`
		Synchronised bool   `json:"synchronised"`
		Reason       string `json:"reason"`
	} `json:"functions"`
}

func loadExtTable(c *Ctx) *extTable {
	b, err := os.ReadFile(filepath.Join(c.VerifDir, "tables", "external.json"))
	if err != nil {
		panic("tables/external.json: " + err.Error())
	}
	var f extFile
	if err := json.Unmarshal(b, &f); err != nil {
		panic("tables/external.json: " + err.Error())
	}
	t := &extTable{pure: f.Pure, entries: map[string]extEntry{}, stateful: map[string]map[string]bool{}}
	for k, v := range f.Functions {
		en := extEntry{Mutates: v.Mutates, Elems: v.Elems, ReturnsArg: -1, Reason: v.Reason, Synchronised: v.Synchronised}
		if v.ReturnsArg != nil {
			en.ReturnsArg = *v.ReturnsArg
		}
		t.entries[k] = en
	}
	for k, v := range f.Stateful {
		m := map[string]bool{}
		for _, r := range v.Readers {
			m[r] = true
		}
		t.stateful[k] = m
	}
	return t
}

// statefulRecv returns "pkg.Type" if c is a method of a listed stateful type.
func statefulRecv(c *ssa.Function) (string, bool) {
	sig := c.Signature
	if sig == nil || sig.Recv() == nil {
		return "", false
	}
	t := sig.Recv().Type()
	if p, ok := t.(*types.Pointer); ok {
		t = p.Elem()
	}
	n, ok := t.(*types.Named)
	if !ok || n.Obj().Pkg() == nil {
		return "", false
	}
	return n.Obj().Pkg().Path() + "." + n.Obj().Name(), true
}

func (t *extTable) lookup(c *ssa.Function) (extEntry, bool) {
	if en, ok := t.entries[c.String()]; ok {
		return en, true
	}
	if tn, ok := statefulRecv(c); ok {
		if readers, ok := t.stateful[tn]; ok {
			if readers[c.Name()] {
				return extEntry{ReturnsArg: -1}, true
			}
			return extEntry{Mutates: []int{0}, ReturnsArg: -1, Reason: "method of stateful type " + tn}, true
		}
	}
	pp := core.PkgPathOf(c)
	if _, ok := t.pure[pp]; ok {
		return extEntry{ReturnsArg: -1}, true
	}
	return extEntry{ReturnsArg: -1}, false
}
