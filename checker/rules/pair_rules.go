package rules

// PAIR engine: pairing / must-pass-through rules on SSA control flow (DESIGN §3.4).

import (
	"fmt"
	"go/ast"
	"go/token"
	"go/types"
	"sort"
	"strings"

	"golang.org/x/tools/go/ssa"

	"wucheck/core"
)

// mustPassBeforeReturn: starting right after instruction (b, idx), does every path to a Return pass an instruction
// accepted by `cut`?  `excuse` may excuse a branch edge (from block, successor index).  Returns the offending return.
func mustPassBeforeReturn(b *ssa.BasicBlock, idx int, cut func(ssa.Instruction) bool, excuse func(from *ssa.BasicBlock, succ int) bool) (bool, *ssa.Return) {
	seen := map[*ssa.BasicBlock]bool{}
	var scan func(blk *ssa.BasicBlock, from int) (bool, *ssa.Return)
	scan = func(blk *ssa.BasicBlock, from int) (bool, *ssa.Return) {
		for i := from; i < len(blk.Instrs); i++ {
			ins := blk.Instrs[i]
			if cut(ins) {
				return true, nil
			}
			if r, ok := ins.(*ssa.Return); ok {
				return false, r
			}
			if _, ok := ins.(*ssa.Panic); ok {
				return true, nil
			}
		}
		for si, succ := range blk.Succs {
			if excuse != nil && excuse(blk, si) {
				continue
			}
			if seen[succ] {
				continue
			}
			seen[succ] = true
			if ok, r := scan(succ, 0); !ok {
				return false, r
			}
		}
		return true, nil
	}
	return scan(b, idx+1)
}

// isParam tells whether v is parameter p, or a load of the local cell that holds p (parameters captured by a
// closure live in a cell that is written once, on entry).
func isParam(v ssa.Value, p *ssa.Parameter) bool {
	if v == ssa.Value(p) {
		return true
	}
	ld, ok := v.(*ssa.UnOp)
	if !ok || ld.Op != token.MUL {
		return false
	}
	al, ok := ld.X.(*ssa.Alloc)
	if !ok {
		return false
	}
	stores := 0
	for _, r := range *al.Referrers() {
		if st, ok := r.(*ssa.Store); ok && st.Addr == ssa.Value(al) {
			stores++
			if st.Val != ssa.Value(p) {
				return false
			}
		}
	}
	return stores == 1
}

// mustUpdate: every return of g is preceded, on every path from entry, by update() on g's receiver with no later
// write in between (approximated: every path from entry to a return passes a call of update on the receiver, and
// no store follows the last one in the returning block).
func mustUpdate(g, upd *ssa.Function, depth int) bool {
	if g == nil || len(g.Blocks) == 0 || len(g.Params) == 0 || depth > 2 || namedOf(recvType(g)) != "SearchParams" {
		return false
	}
	cut := func(ins ssa.Instruction) bool {
		call, ok := ins.(*ssa.Call)
		if !ok {
			return false
		}
		cl := call.Common().StaticCallee()
		if cl == nil || len(call.Common().Args) == 0 || !isParam(call.Common().Args[0], g.Params[0]) {
			return false
		}
		return cl == upd || (cl != g && mustUpdate(cl, upd, depth+1))
	}
	// from the function entry
	entry := g.Blocks[0]
	if len(entry.Instrs) == 0 {
		return false
	}
	if cut(entry.Instrs[0]) {
		return true
	}
	ok, _ := mustPassBeforeReturn(entry, 0, cut, nil)
	return ok
}

func fieldAddrOf(v ssa.Value, elem string) (*ssa.FieldAddr, bool) {
	fa, ok := v.(*ssa.FieldAddr)
	if !ok || fieldElem(fa.X.Type(), fa.Field) != elem {
		return nil, false
	}
	return fa, true
}

// loadOfField recognises  *(&x.<elem>)  and returns x.
func loadOfField(v ssa.Value, elem string) (ssa.Value, bool) {
	u, ok := v.(*ssa.UnOp)
	if !ok || u.Op != token.MUL {
		return nil, false
	}
	fa, ok := fieldAddrOf(u.X, elem)
	if !ok {
		return nil, false
	}
	return fa.X, true
}

func isCallTo(ins ssa.Instruction, recv, name string) (*ssa.CallCommon, bool) {
	ci, ok := ins.(ssa.CallInstruction)
	if !ok {
		return nil, false
	}
	cl := ci.Common().StaticCallee()
	if cl == nil || cl.Name() != name || namedOf(recvType(cl)) != recv {
		return nil, false
	}
	return ci.Common(), true
}

// nilTest recognises a comparison of `load x.<elem>` with nil; returns x and whether the true branch means nil.
func nilTest(cond ssa.Value, elem string) (ssa.Value, bool, bool) {
	bo, ok := cond.(*ssa.BinOp)
	if !ok || (bo.Op != token.EQL && bo.Op != token.NEQ) {
		return nil, false, false
	}
	for _, pr := range [][2]ssa.Value{{bo.X, bo.Y}, {bo.Y, bo.X}} {
		if x, ok := loadOfField(pr[0], elem); ok && isNilConst(pr[1]) {
			return x, bo.Op == token.EQL, true
		}
	}
	return nil, false, false
}

func init() {
	register(&Rule{
		Name:  "PAIR-update",
		Doc:   "every exported *SearchParams method that may write the list or its pairs (computed from its effect summary) calls update() on the same list after its last write on every path to a return; update() stores the list's serialization into url.query, conditioned only on the nil-ness of url, the emptiness of the serialization and the nil-ness of url.query",
		Props: []string{"C12"},
		Floor: 4,
		Run: func(c *Ctx, s *core.Sink) {
			e := BuildEff(c)
			upd := c.P.Func("url", "SearchParams", "update")
			if upd == nil {
				s.Unknown("update/anchor", "-", "(*SearchParams).update not found")
				return
			}
			nMut := 0
			for _, f := range c.P.ExportedAPI() {
				if namedOf(recvType(f)) != "SearchParams" {
					continue
				}
				sum := e.Sum(f)
				writes := false
				for m := range sum.Mut {
					if strings.HasPrefix(m, "P0.SearchParams:params") {
						writes = true
					}
				}
				if !writes {
					continue
				}
				nMut++
				key := "update/" + core.FuncName(f)
				st := e.St[f]
				// deferred update covers every return
				deferred := false
				for _, b := range f.Blocks {
					for _, ins := range b.Instrs {
						if d, ok := ins.(*ssa.Defer); ok {
							if cl := d.Common().StaticCallee(); cl == upd && isParam(d.Common().Args[0], f.Params[0]) {
								deferred = true
							}
						}
					}
				}
				if deferred {
					s.OK(key, c.P.Pos(f.Pos()), "update() is deferred")
					continue
				}
				cut := func(ins ssa.Instruction) bool {
					call, ok := ins.(*ssa.Call)
					if !ok {
						return false
					}
					cl := call.Common().StaticCallee()
					if cl == nil || len(call.Common().Args) == 0 || !isParam(call.Common().Args[0], f.Params[0]) {
						return false
					}
					// update() itself, or a method of the same list that always ends with update()
					return cl == upd || mustUpdate(cl, upd, 0)
				}
				// write instructions: stores / calls whose effect reaches P0.SearchParams:params...
				isWrite := func(ins ssa.Instruction) bool {
					switch x := ins.(type) {
					case *ssa.Store:
						for r := range st.valRoots(x.Addr) {
							if strings.HasPrefix(r, "P0.SearchParams:params") {
								return true
							}
						}
					case *ssa.Call:
						if cut(ins) {
							return false
						}
						com := x.Common()
						argv := com.Args
						if com.IsInvoke() {
							argv = append([]ssa.Value{com.Value}, com.Args...)
						}
						callees := c.P.Callees(f, x)
						for _, cl := range callees {
							var muts []string
							if cs := e.St[cl]; cs != nil {
								muts = cs.sum.Mut.sorted()
							} else if ent, ok := e.Ext.lookup(cl); ok {
								for _, i := range ent.Mutates {
									muts = append(muts, fmt.Sprintf("P%d", i))
								}
							}
							for _, m := range muts {
								var idx int
								if _, err := fmt.Sscanf(rootOf(m), "P%d", &idx); err != nil || idx >= len(argv) {
									continue
								}
								for r := range st.valRoots(argv[idx]) {
									if strings.HasPrefix(r, "P0.SearchParams:params") {
										return true
									}
								}
							}
						}
						if b, ok := com.Value.(*ssa.Builtin); ok && (b.Name() == "append" || b.Name() == "copy") && len(com.Args) > 0 {
							for r := range st.valRoots(com.Args[0]) {
								if strings.HasPrefix(r, "P0.SearchParams:params") {
									return true
								}
							}
						}
					}
					return false
				}
				bad := ""
				var badPos token.Pos
				nw := 0
				for _, b := range f.Blocks {
					for i, ins := range b.Instrs {
						if !isWrite(ins) {
							continue
						}
						nw++
						if ok, r := mustPassBeforeReturn(b, i, cut, nil); !ok {
							bad = fmt.Sprintf("the write at %s reaches the return at %s without update(): the URL's query no longer matches the list", c.P.Pos(ins.Pos()), c.P.Pos(r.Pos()))
							badPos = ins.Pos()
						}
					}
				}
				if nw == 0 {
					delegated := false
					for _, b := range f.Blocks {
						for _, ins := range b.Instrs {
							if cut(ins) {
								delegated = true
							}
						}
					}
					if delegated {
						s.OK(key, c.P.Pos(f.Pos()), "delegates its writes to a method of the list that always ends with update()")
					} else {
						s.Unknown(key, c.P.Pos(f.Pos()), "summary says the method writes the list but no writing instruction was located")
					}
					continue
				}
				if bad != "" {
					s.Bad(key, c.P.Pos(badPos), bad)
				} else {
					s.OK(key, c.P.Pos(f.Pos()), fmt.Sprintf("%d writes, each followed by update() on every path to a return", nw))
				}
			}
			if nMut == 0 {
				s.Unknown("update/none", "-", "no exported SearchParams method writes the list")
			}
			// writers outside the list's own methods: a function that replaces the pairs of the list attached to a URL
			// (x.searchParams.params = …) either ends with update() on that list or manages that URL's query itself
			for _, f := range c.P.ModFns {
				if namedOf(recvType(f)) == "SearchParams" || len(f.Blocks) == 0 {
					continue
				}
				for _, b := range f.Blocks {
					for i, ins := range b.Instrs {
						st, ok := ins.(*ssa.Store)
						if !ok {
							continue
						}
						fa, ok := fieldAddrOf(st.Addr, "SearchParams:params")
						if !ok {
							continue
						}
						owner, ok := loadOfField(fa.X, "Url:searchParams")
						if !ok {
							continue // a list not (yet) reachable from a URL
						}
						key := "update/external/" + core.FuncName(f)
						storesQuery := false
						for _, b2 := range f.Blocks {
							for _, in2 := range b2.Instrs {
								if st2, ok := in2.(*ssa.Store); ok {
									if fq, ok := fieldAddrOf(st2.Addr, "Url:query"); ok && fq.X == owner {
										storesQuery = true
									}
								}
							}
						}
						if storesQuery {
							s.OK(key, c.P.Pos(st.Pos()), "the function sets the query of the same URL itself")
							continue
						}
						cut := func(in2 ssa.Instruction) bool {
							call, ok := in2.(*ssa.Call)
							if !ok {
								return false
							}
							cl := call.Common().StaticCallee()
							if cl == nil || len(call.Common().Args) == 0 || !(cl == upd || mustUpdate(cl, upd, 0)) {
								return false
							}
							o2, ok := loadOfField(call.Common().Args[0], "Url:searchParams")
							return ok && o2 == owner
						}
						if ok, r := mustPassBeforeReturn(b, i, cut, nil); ok {
							s.OK(key, c.P.Pos(st.Pos()), "followed by update() on the same list on every path to a return")
						} else {
							s.Bad(key, c.P.Pos(st.Pos()), fmt.Sprintf("the pairs of the list attached to the URL are replaced and the return at %s is reached without update(): the URL's query no longer matches the list", c.P.Pos(r.Pos())))
						}
					}
				}
			}
			// update() itself
			key := "update/(*url.SearchParams).update/store"
			var store *ssa.Store
			for _, b := range upd.Blocks {
				for _, ins := range b.Instrs {
					if st, ok := ins.(*ssa.Store); ok {
						if fa, ok := fieldAddrOf(st.Addr, "Url:query"); ok {
							if x, ok := loadOfField(fa.X, "SearchParams:url"); ok && x == ssa.Value(upd.Params[0]) {
								store = st
							}
						}
					}
				}
			}
			// update() may hand its serialization to a helper of the URL that does the storing
			// (`s.url.setQueryFromSearchParams(s.String())`): the helper is then read in its place
			body := upd
			delegatedVal := false
			if store == nil {
				for _, b := range upd.Blocks {
					for _, ins := range b.Instrs {
						call, ok := ins.(*ssa.Call)
						if !ok {
							continue
						}
						g := call.Common().StaticCallee()
						if g == nil || len(g.Blocks) == 0 || g.Object() == nil || g.Object().Exported() || namedOf(recvType(g)) != "Url" || len(call.Common().Args) < 2 {
							continue
						}
						if x, ok := loadOfField(call.Common().Args[0], "SearchParams:url"); !ok || x != ssa.Value(upd.Params[0]) {
							continue
						}
						pi := -1
						for i, a := range call.Common().Args {
							if sc, ok := a.(*ssa.Call); ok {
								if cl := sc.Common().StaticCallee(); cl != nil && cl.Name() == "String" && namedOf(recvType(cl)) == "SearchParams" && sc.Common().Args[0] == ssa.Value(upd.Params[0]) {
									pi = i
								}
							}
						}
						if pi < 0 {
							continue
						}
						for _, gb := range g.Blocks {
							for _, gi := range gb.Instrs {
								st, ok := gi.(*ssa.Store)
								if !ok {
									continue
								}
								if fa, ok := fieldAddrOf(st.Addr, "Url:query"); ok && fa.X == ssa.Value(g.Params[0]) {
									store, body = st, g
									if al, ok := st.Val.(*ssa.Alloc); ok {
										for _, r := range *al.Referrers() {
											if st2, ok := r.(*ssa.Store); ok && st2.Addr == ssa.Value(al) && st2.Val == ssa.Value(g.Params[pi]) {
												delegatedVal = true
											}
										}
									}
								}
							}
						}
					}
				}
			}
			if store == nil {
				s.Bad(key, c.P.Pos(upd.Pos()), "update() does not store into s.url.query")
			} else {
				// value: address of a local that receives s.String()
				okVal := delegatedVal
				if al, ok := store.Val.(*ssa.Alloc); ok {
					for _, r := range *al.Referrers() {
						if st2, ok := r.(*ssa.Store); ok && st2.Addr == ssa.Value(al) {
							if call, ok := st2.Val.(*ssa.Call); ok {
								if cl := call.Common().StaticCallee(); cl != nil && cl.Name() == "String" && namedOf(recvType(cl)) == "SearchParams" && call.Common().Args[0] == ssa.Value(upd.Params[0]) {
									okVal = true
								}
							}
						}
					}
				}
				s.Check(okVal, key, c.P.Pos(store.Pos()), "stores &query where query = s.String()", "the value stored into url.query is not the list's own serialization")
				// conditions
				var badConds []string
				condBlocks := append([]*ssa.BasicBlock(nil), upd.Blocks...)
				if body != upd {
					condBlocks = append(condBlocks, body.Blocks...)
				}
				for _, b := range condBlocks {
					iff, ok := lastIf(b)
					if !ok {
						continue
					}
					cond := iff.Cond
					okc := false
					if _, _, ok := nilTest(cond, "SearchParams:url"); ok {
						okc = true
					}
					if x, _, ok := nilTest(cond, "Url:query"); ok {
						if _, ok := loadOfField(x, "SearchParams:url"); ok {
							okc = true
						}
						if body != upd && x == ssa.Value(body.Params[0]) {
							okc = true
						}
					}
					if bo, ok := cond.(*ssa.BinOp); ok && (bo.Op == token.EQL || bo.Op == token.NEQ) {
						for _, pr := range [][2]ssa.Value{{bo.X, bo.Y}, {bo.Y, bo.X}} {
							if k, ok := pr[1].(*ssa.Const); ok && k.Value != nil && k.Value.ExactString() == `""` {
								if ld, ok := pr[0].(*ssa.UnOp); ok && ld.Op == token.MUL {
									if _, isAlloc := ld.X.(*ssa.Alloc); isAlloc {
										okc = true
									}
								}
							}
						}
					}
					if !okc {
						badConds = append(badConds, cond.String()+" at "+c.P.Pos(iff.Pos()))
					}
				}
				s.Check(len(badConds) == 0, "update/(*url.SearchParams).update/conditions", c.P.Pos(upd.Pos()), "conditioned only on url == nil, query == \"\" and url.query == nil", "write-through is also conditioned on "+strings.Join(badConds, "; "))
				// polarity: with a URL attached, the store is reached whenever the serialization is non-empty or the URL
				// has a query (decision over the three conditions above; every other condition is left open)
				if len(badConds) == 0 && okVal {
					type val struct{ urlNil, empty, queryNil bool }
					escapes := func(v val) bool {
						seen := map[*ssa.BasicBlock]bool{}
						var walk func(b *ssa.BasicBlock) bool
						walk = func(b *ssa.BasicBlock) bool {
							if seen[b] {
								return false
							}
							seen[b] = true
							for _, ins := range b.Instrs {
								if ins == ssa.Instruction(store) {
									return false
								}
								if _, ok := ins.(*ssa.Return); ok {
									return true
								}
							}
							iff, ok := lastIf(b)
							if !ok {
								for _, sc := range b.Succs {
									if walk(sc) {
										return true
									}
								}
								return false
							}
							take := -1 // 0: true edge, 1: false edge
							if _, trueIsNil, ok := nilTest(iff.Cond, "SearchParams:url"); ok {
								take = 1
								if v.urlNil == trueIsNil {
									take = 0
								}
							} else if _, trueIsNil, ok := nilTest(iff.Cond, "Url:query"); ok {
								take = 1
								if v.queryNil == trueIsNil {
									take = 0
								}
							} else if bo, ok := iff.Cond.(*ssa.BinOp); ok && (bo.Op == token.EQL || bo.Op == token.NEQ) {
								take = 1
								if v.empty == (bo.Op == token.EQL) {
									take = 0
								}
							}
							if take >= 0 {
								return walk(b.Succs[take])
							}
							return walk(b.Succs[0]) || walk(b.Succs[1])
						}
						if body != upd {
							return walk(body.Blocks[0]) // with a URL attached the helper is called (the only other condition)
						}
						return walk(upd.Blocks[0])
					}
					var missed []string
					for _, v := range []val{{false, false, false}, {false, false, true}, {false, true, false}} {
						if escapes(v) {
							d := "a non-empty serialization"
							if v.empty {
								d = "an empty serialization while the URL has a query"
							}
							missed = append(missed, d)
						}
					}
					s.Check(len(missed) == 0, "update/(*url.SearchParams).update/polarity", c.P.Pos(store.Pos()), "with a URL attached the store is reached for a non-empty serialization and for an empty one when the URL has a query", "with a URL attached, update() can return without storing "+strings.Join(missed, " / ")+": the URL keeps its stale query")
				}
			}
		},
	})

	register(&Rule{
		Name:  "PAIR-handle",
		Doc:   "a list object attached to an existing URL is never replaced: every store to Url.searchParams of a URL that was not allocated in the same function is guarded by `searchParams == nil` (directly or at every call site of an unguarded helper); the search setter truncates the existing list when the query is cleared and otherwise re-initialises it in place; init truncates before it appends",
		Props: []string{"C12"},
		Floor: 3,
		Run: func(c *Ctx, s *core.Sink) {
			e := BuildEff(c)
			guarded := func(f *ssa.Function, x ssa.Value, blk *ssa.BasicBlock) bool {
				for _, b := range f.Blocks {
					iff, ok := lastIf(b)
					if !ok {
						continue
					}
					y, trueIsNil, ok := nilTest(iff.Cond, "Url:searchParams")
					if !ok || y != x {
						continue
					}
					succ := b.Succs[1]
					if trueIsNil {
						succ = b.Succs[0]
					}
					if len(succ.Preds) == 1 && succ.Dominates(blk) {
						return true
					}
				}
				return false
			}
			unguarded := map[*ssa.Function]int{} // function -> parameter index whose searchParams it stores without a guard
			n := map[string]int{}
			type pend struct {
				f   *ssa.Function
				pos token.Pos
				key string
			}
			var pending []pend
			for _, f := range c.P.ModFns {
				st := e.St[f]
				for _, b := range f.Blocks {
					for _, ins := range b.Instrs {
						store, ok := ins.(*ssa.Store)
						if !ok {
							continue
						}
						fa, ok := fieldAddrOf(store.Addr, "Url:searchParams")
						if !ok {
							continue
						}
						base := "handle/" + core.FuncName(f) + "/store"
						n[base]++
						key := fmt.Sprintf("%s#%d", base, n[base])
						fresh := true
						for r := range st.valRoots(fa.X) {
							if !isFreshPath(r) {
								fresh = false
							}
						}
						switch {
						case fresh:
							s.OK(key, c.P.Pos(store.Pos()), "the URL is allocated in this function: no handle can exist yet")
						case guarded(f, fa.X, b):
							s.OK(key, c.P.Pos(store.Pos()), "guarded by searchParams == nil")
						case keepsExisting(store, fa.X, func(pb *ssa.BasicBlock) bool { return guardedEdge(f, fa.X, pb, store.Val) }):
							s.OK(key, c.P.Pos(store.Pos()), "stores back the list the field already holds; a new one only on the edge where searchParams == nil")
						default:
							if p, ok := fa.X.(*ssa.Parameter); ok && !ast.IsExported(f.Name()) {
								for i, q := range f.Params {
									if q == p {
										unguarded[f] = i
									}
								}
								pending = append(pending, pend{f, store.Pos(), key})
							} else {
								s.Bad(key, c.P.Pos(store.Pos()), "replaces the list object of an existing URL: a SearchParams handle obtained earlier is detached")
							}
						}
					}
				}
			}
			// call sites of unguarded helpers
			for _, pd := range pending {
				idx := unguarded[pd.f]
				okAll, sites := true, 0
				for _, f := range c.P.ModFns {
					for _, b := range f.Blocks {
						for _, ins := range b.Instrs {
							call, ok := ins.(*ssa.Call)
							if !ok || call.Common().StaticCallee() != pd.f {
								continue
							}
							sites++
							if !guarded(f, call.Common().Args[idx], b) {
								okAll = false
								s.Bad(fmt.Sprintf("handle/%s/calls:%s", core.FuncName(f), pd.f.Name()), c.P.Pos(call.Pos()), "calls "+pd.f.Name()+" (which replaces the list object) without checking that no list exists")
							}
						}
					}
				}
				if okAll {
					s.OK(pd.key, c.P.Pos(pd.pos), fmt.Sprintf("unguarded helper; all %d call sites are guarded by searchParams == nil", sites))
				}
			}
			// SetSearch
			ss := c.P.Func("url", "Url", "SetSearch")
			if ss == nil {
				s.Unknown("handle/SetSearch", "-", "anchor (*Url).SetSearch not found")
			} else {
				u := ssa.Value(ss.Params[0])
				g := flatten(c, ss, urlHelpers(c), 2)
				// (1) clearing path: query = nil, then list truncated in place when it exists
				var nilStore *ssa.Store
				var nilNode *fnode
				var nilIdx int
				for _, n := range g.Nodes {
					for i, ins := range n.Instrs {
						if st, ok := ins.(*ssa.Store); ok && isNilConst(st.Val) {
							if fa, ok := fieldAddrOf(st.Addr, "Url:query"); ok && n.Root(fa.X) == u {
								nilStore, nilNode, nilIdx = st, n, i
							}
						}
					}
				}
				// the list object of this URL: a load of u.searchParams, possibly through a local copy
				isList := func(m *fnode, v ssa.Value) bool {
					if x, ok := loadOfField(v, "Url:searchParams"); ok && m.Root(x) == u {
						return true
					}
					// inside a helper of the list: its receiver stands for what the caller called it on
					if r := m.Root(v); r != v {
						if x, ok := loadOfField(r, "Url:searchParams"); ok && (x == u || m.Root(x) == u) {
							return true
						}
					}
					return false
				}
				isTrunc := func(m *fnode, ins ssa.Instruction) bool {
					st, ok := ins.(*ssa.Store)
					if !ok {
						return false
					}
					fa, ok := fieldAddrOf(st.Addr, "SearchParams:params")
					if !ok || !isList(m, fa.X) {
						return false
					}
					sl, ok := st.Val.(*ssa.Slice)
					if !ok || sl.High == nil {
						return false
					}
					k, ok := sl.High.(*ssa.Const)
					return ok && k.Value != nil && k.Value.ExactString() == "0"
				}
				if nilStore == nil {
					s.Unknown("handle/SetSearch/clear", c.P.Pos(ss.Pos()), "no path of SetSearch stores nil into u.query")
				} else {
					ok, r := mustPassFlat(nilNode, nilIdx, isTrunc, func(m *fnode, succ int) bool {
						// the branch on which no list exists: a nil test of u.searchParams (or of a local copy of it)
						if x, trueIsNil, isNT := nilTest(m.If.Cond, "Url:searchParams"); isNT && m.Root(x) == u {
							return (succ == 0) == trueIsNil
						}
						return false
					})
					if ok {
						s.OK("handle/SetSearch/clear", c.P.Pos(nilStore.Pos()), "clearing the query truncates the existing list in place")
					} else {
						s.Bad("handle/SetSearch/clear", c.P.Pos(nilStore.Pos()), "clearing the query reaches the return at "+c.P.Pos(r.Pos())+" without emptying an existing parameter list")
					}
				}
				// (2) after the parser call the list is (re)initialised from the new query
				for _, n := range g.Nodes {
					if n.Fn != ss {
						continue
					}
					for i, ins := range n.Instrs {
						_, ok := isCallTo(ins, "parser", "BasicParser")
						if !ok {
							if ci, isCI := ins.(ssa.CallInstruction); isCI && ci.Common().IsInvoke() && ci.Common().Method.Name() == "BasicParser" {
								ok = true
							}
						}
						if !ok {
							continue
						}
						cut := func(m *fnode, x ssa.Instruction) bool {
							// list.init(*u.query) on this URL's list, or on a fresh list bound to this URL (helper inlined)
							cc, ok := isCallTo(x, "SearchParams", "init")
							if !ok {
								return false
							}
							ld, ok := cc.Args[1].(*ssa.UnOp)
							if !ok {
								return false
							}
							if z, ok := loadOfField(ld.X, "Url:query"); !ok || m.Root(z) != u {
								return false
							}
							var okList func(v ssa.Value, depth int) bool
							okList = func(v ssa.Value, depth int) bool {
								if isList(m, v) {
									return true
								}
								// a list allocated here whose url field is set to u (it becomes u.searchParams: PAIR-handle/store rows)
								if al, ok := v.(*ssa.Alloc); ok && namedOf(al.Type()) == "SearchParams" {
									for _, r := range *al.Referrers() {
										if fa, ok := r.(*ssa.FieldAddr); ok && fieldElem(fa.X.Type(), fa.Field) == "SearchParams:url" {
											for _, r2 := range *fa.Referrers() {
												if st, ok := r2.(*ssa.Store); ok && m.Root(st.Val) == u {
													return true
												}
											}
										}
									}
								}
								// the existing list or, failing that, a new one
								if phi, ok := v.(*ssa.Phi); ok && depth < 3 {
									for _, e := range phi.Edges {
										if !okList(e, depth+1) {
											return false
										}
									}
									return len(phi.Edges) > 0
								}
								return false
							}
							return okList(cc.Args[0], 0)
						}
						// a fresh list of a URL whose query is nil needs no init: excuse the nil side of a test of u.query
						excuse := func(m *fnode, succ int) bool {
							if m.Fn == ss {
								return false
							}
							if x, trueIsNil, isNT := nilTest(m.If.Cond, "Url:query"); isNT && m.Root(x) == u {
								return (succ == 0) == trueIsNil
							}
							return false
						}
						if ok, r := mustPassFlat(n, i, cut, excuse); ok {
							s.OK("handle/SetSearch/refresh", c.P.Pos(ins.Pos()), "after parsing the new query the list is re-initialised from *u.query (in place) or created")
						} else {
							s.Bad("handle/SetSearch/refresh", c.P.Pos(ins.Pos()), "after parsing the new query the return at "+c.P.Pos(r.Pos())+" is reached without re-initialising the parameter list from it")
						}
					}
				}
			}
			// (3) init truncates first
			in := c.P.Func("url", "SearchParams", "init")
			if in == nil {
				s.Unknown("handle/init", "-", "anchor (*SearchParams).init not found")
			} else {
				trunc := initStartsEmpty(in)
				s.Check(trunc, "handle/init/truncate", c.P.Pos(in.Pos()), "every list init stores starts from an emptied one (params[:0], nil or a new empty slice, stored where it dominates the appends)", "init appends to whatever the list held before: parameters are duplicated on re-initialisation")
			}
		},
	})

	register(&Rule{
		Name:  "PAIR-group",
		Doc:   "cache groups of Url ({port, decodedPort}; {host, isIPv4, isIPv6} if such fields exist): every store to one field is accompanied in the same block by stores to the others on the same object; an accessor decides 'present' on the primary's nil-ness, never on a cache value; address-kind accessors derive from the host",
		Props: []string{"C19"},
		Floor: 5,
		Run: func(c *Ctx, s *core.Sink) {
			urlT := c.P.Type("url", "Url")
			if urlT == nil {
				s.Unknown("group/anchor", "-", "type Url not found")
				return
			}
			groups := [][]string{{"port", "decodedPort"}, {"host", "isIPv4", "isIPv6"}}
			for _, g := range groups {
				var present []string
				for _, f := range g {
					if core.FieldIndex(urlT, f) >= 0 {
						present = append(present, f)
					}
				}
				gname := strings.Join(g, "+")
				if len(present) <= 1 {
					s.OK("group/"+gname+"/nocache", c.P.Pos(urlT.Obj().Pos()), "no cache field exists for this group: accessors must derive on read (checked below)")
					continue
				}
				n := map[string]int{}
				for _, f := range c.P.ModFns {
					for _, b := range f.Blocks {
						for _, ins := range b.Instrs {
							st, ok := ins.(*ssa.Store)
							if !ok {
								continue
							}
							fa, ok := st.Addr.(*ssa.FieldAddr)
							if !ok || namedOf(fa.X.Type()) != "Url" {
								continue
							}
							fld := strings.TrimPrefix(fieldElem(fa.X.Type(), fa.Field), "Url:")
							in := false
							for _, p := range present {
								if p == fld {
									in = true
								}
							}
							if !in {
								continue
							}
							base := fmt.Sprintf("group/%s/%s/%s", gname, core.FuncName(f), fld)
							n[base]++
							key := fmt.Sprintf("%s#%d", base, n[base])
							var missing []string
							for _, p := range present {
								if p == fld {
									continue
								}
								found := false
								for _, ins2 := range b.Instrs {
									if st2, ok := ins2.(*ssa.Store); ok {
										if fa2, ok := st2.Addr.(*ssa.FieldAddr); ok && fa2.X == fa.X && fieldElem(fa2.X.Type(), fa2.Field) == "Url:"+p {
											// a store of the field's own value (`url.decodedPort = url.decodedPort`) stores nothing
											self := false
											if ld, ok := st2.Val.(*ssa.UnOp); ok && ld.Op == token.MUL {
												if fa3, ok := ld.X.(*ssa.FieldAddr); ok && fa3.X == fa2.X && fa3.Field == fa2.Field {
													self = true
												}
											}
											if !self {
												found = true
											}
										}
									}
								}
								if !found {
									missing = append(missing, p)
								}
							}
							// a copy: the object was filled by a whole-struct copy of another URL (the companions came along)
							// and this store replaces the field by a copy made from the same field of that URL
							if len(missing) > 0 {
								if al, isAl := fa.X.(*ssa.Alloc); isAl {
									var src ssa.Value
									for _, r := range *al.Referrers() {
										if ws, ok := r.(*ssa.Store); ok && ws.Addr == ssa.Value(al) {
											if ld, ok := ws.Val.(*ssa.UnOp); ok && ld.Op == token.MUL && namedOf(ld.X.Type()) == "Url" {
												src = ld.X
											}
										}
									}
									if src != nil {
										or := map[string]bool{}
										cloneOrigins(st.Val, "Url", al, map[ssa.Value]bool{}, or)
										if len(or) == 1 && or[fld] {
											s.OK(key, c.P.Pos(st.Pos()), "a copy of the same field of the URL the whole object was copied from: the companions came along with the struct copy")
											continue
										}
									}
								}
							}
							s.Check(len(missing) == 0, key, c.P.Pos(st.Pos()), "stored together with "+strings.Join(present, ", "), "stores "+fld+" without "+strings.Join(missing, ", ")+": the cached value goes stale")
						}
					}
				}
			}
			// accessors: present-decision and derivation
			cache := map[string]string{"decodedPort": "port", "isIPv4": "host", "isIPv6": "host"}
			for _, f := range c.P.ExportedAPI() {
				if namedOf(recvType(f)) != "Url" || strings.HasPrefix(f.Name(), "Set") || f.Name() == "Clone" {
					continue
				}
				for _, b := range f.Blocks {
					iff, ok := lastIf(b)
					if !ok {
						continue
					}
					var bad string
					var walk func(v ssa.Value, d int)
					walk = func(v ssa.Value, d int) {
						if d > 6 {
							return
						}
						if u, ok := v.(*ssa.UnOp); ok && u.Op == token.MUL {
							if fa, ok := u.X.(*ssa.FieldAddr); ok && namedOf(fa.X.Type()) == "Url" {
								fld := strings.TrimPrefix(fieldElem(fa.X.Type(), fa.Field), "Url:")
								if prim, isCache := cache[fld]; isCache {
									bad = fmt.Sprintf("decides on the cached %s instead of the presence of %s", fld, prim)
								}
							}
						}
						if ins, ok := v.(ssa.Instruction); ok {
							for _, op := range ins.Operands(nil) {
								if *op != nil {
									walk(*op, d+1)
								}
							}
						}
					}
					walk(iff.Cond, 0)
					if bad != "" {
						s.Bad("group/accessor/"+core.FuncName(f), c.P.Pos(iff.Pos()), bad)
					}
				}
			}
			for _, t := range []struct{ name, field, cache string }{{"DecodedPort", "port", ""}, {"IsIPv4", "host", "isIPv4"}, {"IsIPv6", "host", "isIPv6"}} {
				f := c.P.Func("url", "Url", t.name)
				key := "group/accessor/" + t.name
				if f == nil {
					s.Unknown(key, "-", "accessor not found")
					continue
				}
				if t.cache != "" && core.FieldIndex(urlT, t.cache) >= 0 {
					s.OK(key, c.P.Pos(f.Pos()), "a cache field exists for this accessor; its coherence is the pairing obligation above")
					continue
				}
				reads := false
				for _, b := range f.Blocks {
					for _, ins := range b.Instrs {
						if fa, ok := ins.(*ssa.FieldAddr); ok && fieldElem(fa.X.Type(), fa.Field) == "Url:"+t.field && fa.X == ssa.Value(f.Params[0]) {
							reads = true
						}
					}
				}
				// nil test of the primary must exist
				nt := false
				for _, b := range f.Blocks {
					if iff, ok := lastIf(b); ok {
						if x, _, ok := nilTest(iff.Cond, "Url:"+t.field); ok && x == ssa.Value(f.Params[0]) {
							nt = true
						}
					}
				}
				s.Check(reads && nt, key, c.P.Pos(f.Pos()), "decides on the presence of "+t.field, "does not test "+t.field+" for nil")
			}
			// "… the scheme's default port, or 0, otherwise": the only constant DecodedPort can hand out is 0
			if f := c.P.Func("url", "Url", "DecodedPort"); f != nil {
				ks := map[int64]token.Pos{}
				var collect func(g *ssa.Function, depth int)
				seen := map[*ssa.Function]bool{}
				collect = func(g *ssa.Function, depth int) {
					if seen[g] || depth > 4 {
						return
					}
					seen[g] = true
					var val func(v ssa.Value, d int)
					val = func(v ssa.Value, d int) {
						if d > 6 {
							return
						}
						switch x := v.(type) {
						case *ssa.Const:
							if k, ok := constInt(x); ok {
								if _, dup := ks[k]; !dup {
									ks[k] = g.Pos()
								}
							}
						case *ssa.Phi:
							for _, e := range x.Edges {
								val(e, d+1)
							}
						case *ssa.Convert:
							val(x.X, d+1)
						case *ssa.Call:
							if cl := x.Common().StaticCallee(); cl != nil && c.P.InModule(cl) && len(cl.Blocks) > 0 && cl.Signature.Results().Len() == 1 {
								collect(cl, depth+1)
							}
						}
					}
					for _, b := range g.Blocks {
						if r, ok := b.Instrs[len(b.Instrs)-1].(*ssa.Return); ok && len(r.Results) == 1 {
							val(r.Results[0], 0)
						}
					}
				}
				collect(f, 0)
				bad := ""
				var badPos token.Pos
				for k, p := range ks {
					if k != 0 {
						bad = fmt.Sprintf("DecodedPort can return the constant %d: without a port and without a default port the answer must be 0", k)
						badPos = p
					}
				}
				if bad != "" {
					s.Bad("group/DecodedPort/fallback", c.P.Pos(badPos), bad)
				} else {
					s.OK("group/DecodedPort/fallback", c.P.Pos(f.Pos()), "the only constant DecodedPort (and the functions whose answer it returns) can hand out is 0")
				}
			}
		},
	})

	register(&Rule{
		Name:  "PAIR-port",
		Doc:   "every path of the state machine that stores a new (not base-copied, not nil) port, or a scheme under a state override, afterwards calls the default-port elision on the same URL; no other function stores a port",
		Props: []string{"C04", "C18"},
		Floor: 3,
		Run: func(c *Ctx, s *core.Sink) {
			m := BuildSM(c)
			if smProblems(m, s) {
				return
			}
			type res struct {
				ok  bool
				pos token.Pos
				n   int
			}
			agg := map[string]*res{}
			for _, cx := range m.Contexts {
				for _, p := range m.Paths[cx.Name] {
					for i, e := range p.Effects {
						trigger := ""
						if e.Field == "port" && (e.Kind == "value" || e.Kind == "fresh") {
							trigger = "port"
						}
						if e.Field == "scheme" && e.Kind == "value" && cx.Override != "" {
							trigger = "scheme(override)"
						}
						if trigger == "" {
							continue
						}
						key := fmt.Sprintf("port/%s/%s@%s", p.State, trigger, c.P.Pos(e.Pos))
						r := agg[key]
						if r == nil {
							r = &res{ok: true, pos: e.Pos}
							agg[key] = r
						}
						r.n++
						elided := false
						for _, e2 := range p.Effects[i+1:] {
							if e2.Field == "port" && strings.HasPrefix(e2.Kind, "call:") && e2.Kind == "call:cleanDefaultPort" {
								elided = true
							}
						}
						if !elided {
							r.ok = false
						}
					}
				}
			}
			var keys []string
			for k := range agg {
				keys = append(keys, k)
			}
			sort.Strings(keys)
			ord := map[string]int{}
			for _, k := range keys {
				r := agg[k]
				base := strings.SplitN(k, "@", 2)[0]
				ord[base]++
				key := fmt.Sprintf("%s#%d", base, ord[base])
				s.Check(r.ok, key, c.P.Pos(r.pos), fmt.Sprintf("followed by cleanDefaultPort on all %d paths", r.n), "a path stores the component and never elides a default port: the URL may keep its scheme's default port")
			}
			// cleanDefaultPort really elides: it stores nil to port under a comparison with the scheme's default
			cdp := c.P.Func("url", "Url", "cleanDefaultPort")
			if cdp == nil {
				s.Unknown("port/cleanDefaultPort", "-", "anchor not found")
			} else {
				nilStore := false
				var storesNil func(f *ssa.Function, depth int) bool
				storesNil = func(f *ssa.Function, depth int) bool {
					for _, b := range f.Blocks {
						for _, ins := range b.Instrs {
							if st, ok := ins.(*ssa.Store); ok && isNilConst(st.Val) {
								if fa, ok := fieldAddrOf(st.Addr, "Url:port"); ok && fa.X == ssa.Value(f.Params[0]) {
									return true
								}
							}
							// … or an unexported helper of the URL, called on the same URL, does
							if call, ok := ins.(*ssa.Call); ok && depth < 1 {
								if h := call.Common().StaticCallee(); h != nil && len(h.Blocks) > 0 && namedOf(recvType(h)) == "Url" && len(call.Common().Args) > 0 && call.Common().Args[0] == ssa.Value(f.Params[0]) {
									if storesNil(h, depth+1) {
										return true
									}
								}
							}
						}
					}
					return false
				}
				nilStore = storesNil(cdp, 0)
				s.Check(nilStore, "port/cleanDefaultPort", c.P.Pos(cdp.Pos()), "stores nil into port", "never clears the port")
				// what the elision decides on: if a branch of it reads the cached number instead of the port itself, "never
				// the default port" holds only as far as the cache follows the port — the obligations of PAIR-group
				var cacheRead ssa.Instruction
				var scan func(f *ssa.Function, depth int)
				scan = func(f *ssa.Function, depth int) {
					for _, b := range f.Blocks {
						for _, ins := range b.Instrs {
							if ld, ok := ins.(*ssa.UnOp); ok && ld.Op == token.MUL && cacheRead == nil {
								if _, ok := fieldAddrOf(ld.X, "Url:decodedPort"); ok && reachesBranch(ld, 0) {
									cacheRead = ld
								}
							}
							if call, ok := ins.(*ssa.Call); ok && depth < 2 {
								if h := call.Common().StaticCallee(); h != nil && len(h.Blocks) > 0 && namedOf(recvType(h)) == "Url" && len(call.Common().Args) > 0 && call.Common().Args[0] == ssa.Value(f.Params[0]) {
									scan(h, depth+1)
								}
							}
						}
					}
				}
				scan(cdp, 0)
				if cacheRead != nil {
					sup := brokenSupport(c, []string{"PAIR-group:group/port+decodedPort/"})
					s.Check(sup == "", "port/cleanDefaultPort/decides-on", c.P.Pos(cacheRead.Pos()), "the elision decides on the cached number decodedPort, which every writer of port keeps in step (PAIR-group)",
						"the elision decides on the cached number decodedPort, and the cache does not follow the port everywhere ("+sup+"): a default port survives where the cache is stale", "C04")
				} else {
					s.OK("port/cleanDefaultPort/decides-on", c.P.Pos(cdp.Pos()), "the elision decides on the port itself", "C04")
				}
			}
			// other writers of port
			for _, f := range c.P.ModFns {
				if f == m.An.fn || f == cdp || m.IsInlined(f) {
					continue // helpers of the state machine are walked in place: their stores are on the paths checked above
				}
				for _, b := range f.Blocks {
					for _, ins := range b.Instrs {
						st, ok := ins.(*ssa.Store)
						if !ok {
							continue
						}
						fa, ok := fieldAddrOf(st.Addr, "Url:port")
						if !ok {
							continue
						}
						key := "port/other/" + core.FuncName(f)
						switch {
						case isNilConst(st.Val):
							s.OK(key, c.P.Pos(st.Pos()), "stores nil")
						case f.Name() == "Clone":
							s.OK(key, c.P.Pos(st.Pos()), "copy of an already elided port into a fresh URL")
						default:
							_ = fa
							s.Bad(key, c.P.Pos(st.Pos()), "stores a port outside the parser without default-port elision")
						}
					}
				}
			}
		},
	})

	register(&Rule{
		Name:  "PAIR-strip",
		Doc:   "every exported *Url method that stores nil into query or fragment strips the trailing spaces of an opaque path on every path on which the other of the two is nil as well; and conversely, wherever such a method strips, query and fragment are both nil there (forward nil-ness analysis over the method with its helpers and getters inlined): an empty but present query or fragment keeps the spaces",
		Props: []string{"C03", "C05"},
		Floor: 2,
		Run: func(c *Ctx, s *core.Sink) {
			for _, f := range c.P.ExportedAPI() {
				if namedOf(recvType(f)) != "Url" {
					continue
				}
				u := ssa.Value(f.Params[0])
				// the method with its unexported helpers inlined
				g := flatten(c, f, urlHelpers(c), 2)
				done := map[string]bool{}
				for _, n := range g.Nodes {
					for i, ins := range n.Instrs {
						st, ok := ins.(*ssa.Store)
						if !ok || !isNilConst(st.Val) {
							continue
						}
						fa, ok := st.Addr.(*ssa.FieldAddr)
						if !ok || n.Root(fa.X) != u {
							continue
						}
						el := fieldElem(fa.X.Type(), fa.Field)
						if el != "Url:query" && el != "Url:fragment" {
							continue
						}
						key := "strip/" + core.FuncName(f) + "/" + strings.TrimPrefix(el, "Url:")
						if done[key+c.P.Pos(st.Pos())] {
							continue
						}
						done[key+c.P.Pos(st.Pos())] = true
						cut := func(m *fnode, x ssa.Instruction) bool {
							cc, ok := isCallTo(x, "path", "stripTrailingSpacesIfOpaque")
							if !ok {
								return false
							}
							y, ok := loadOfField(cc.Args[0], "Url:path")
							return ok && m.Root(y) == u
						}
						excuse := func(m *fnode, succ int) bool {
							for _, e2 := range []string{"Url:query", "Url:fragment"} {
								if x, trueIsNil, ok := nilTest(m.If.Cond, e2); ok && m.Root(x) == u {
									// the branch on which the component is non-nil needs no stripping
									return (succ == 0) != trueIsNil
								}
							}
							return false
						}
						if ok, r := mustPassFlat(n, i, cut, excuse); ok {
							s.OK(key, c.P.Pos(st.Pos()), "followed by stripTrailingSpacesIfOpaque unless the other component is present")
						} else {
							s.Bad(key, c.P.Pos(st.Pos()), "reaches the return at "+c.P.Pos(r.Pos())+" with query and fragment both nil and no stripping of an opaque path's trailing spaces: the serialization does not re-parse to itself")
						}
					}
				}
				stripOnlyWhenBothNil(c, s, f)
			}
		},
	})

	register(&Rule{
		Name:  "PAIR-guards",
		Doc:   "sibling setters agree on their applicability guard — the atoms about the URL that hold at every store into it and every mutating call, read through unexported helpers and predicate summaries: SetUsername/SetPassword/SetPort share one (non-empty) guard, SetHost/SetHostname/SetPathname another",
		Props: []string{"C04", "C05"},
		Floor: 2,
		Run: func(c *Ctx, s *core.Sink) {
			// the guard of a setter: the atoms about the URL that hold at every one of its effects (stores into the URL,
			// mutating calls), read through unexported helpers and predicate helpers — however the early return is written
			guardOf := func(name string) ([]string, token.Pos, bool) {
				f := c.P.Func("url", "Url", name)
				if f == nil {
					return nil, 0, false
				}
				atoms, sites := effectGuard(c, f)
				if sites == 0 {
					return nil, f.Pos(), true
				}
				return atoms, f.Pos(), true
			}
			for _, grp := range [][]string{{"SetUsername", "SetPassword", "SetPort"}, {"SetHost", "SetHostname", "SetPathname"}} {
				var ref []string
				for i, n := range grp {
					atoms, pos, found := guardOf(n)
					key := "guards/" + n
					if !found {
						s.Unknown(key, "-", "setter not found")
						continue
					}
					if len(atoms) == 0 {
						s.Bad(key, c.P.Pos(pos), "no condition on the URL guards all of its effects (no applicability guard)")
						continue
					}
					if i == 0 {
						ref = atoms
						s.OK(key, c.P.Pos(pos), "holds at every effect: "+strings.Join(atoms, " && "))
						continue
					}
					s.Check(strings.Join(atoms, "|") == strings.Join(ref, "|"), key, c.P.Pos(pos), "same guard as "+grp[0], fmt.Sprintf("guard %v differs from %s's %v", atoms, grp[0], ref))
				}
			}
		},
	})
}

// reachesBranch: the value feeds the condition of a branch (through arithmetic, comparisons, conversions and calls).
func reachesBranch(v ssa.Value, depth int) bool {
	if depth > 6 || v.Referrers() == nil {
		return false
	}
	for _, r := range *v.Referrers() {
		switch x := r.(type) {
		case *ssa.If:
			return true
		case *ssa.BinOp:
			if reachesBranch(x, depth+1) {
				return true
			}
		case *ssa.UnOp:
			if reachesBranch(x, depth+1) {
				return true
			}
		case *ssa.Convert:
			if reachesBranch(x, depth+1) {
				return true
			}
		case *ssa.Phi:
			if reachesBranch(x, depth+1) {
				return true
			}
		case *ssa.Call:
			if reachesBranch(x, depth+1) {
				return true
			}
		}
	}
	return false
}

// stripOnlyWhenBothNil: the converse clause of PAIR-strip. A forward analysis of the nil-ness of u.query and u.fragment
// over the method with its unexported helpers and the Url getters inlined: 0 = unknown, 1 = nil, 2 = not nil. A store
// of nil makes the component nil, any other store and any call that is not looked through and may write the component
// makes it unknown, a branch on `u.x == nil` refines it. At every call of stripTrailingSpacesIfOpaque on u.path both
// must be nil (the standard strips only when the URL has neither a query nor a fragment; an empty one counts as
// present).
func stripOnlyWhenBothNil(c *Ctx, s *core.Sink, f *ssa.Function) {
	u := ssa.Value(f.Params[0])
	helpers := urlHelpers(c)
	follow := func(g *ssa.Function) bool {
		if helpers(g) {
			return true
		}
		// getters of Url: exported methods that store nothing and call nothing of the module but getters
		if !c.P.InModule(g) || namedOf(recvType(g)) != "Url" || g.Parent() != nil || len(g.Blocks) == 0 || len(g.Blocks) > 12 {
			return false
		}
		for _, b := range g.Blocks {
			for _, ins := range b.Instrs {
				switch x := ins.(type) {
				case *ssa.Store:
					if _, isAlloc := x.Addr.(*ssa.Alloc); !isAlloc {
						return false
					}
				case ssa.CallInstruction:
					if cl := x.Common().StaticCallee(); cl == nil || c.P.InModule(cl) {
						return false
					}
				}
			}
		}
		return true
	}
	g := flatten(c, f, follow, 3)
	isStrip := func(m *fnode, x ssa.Instruction) bool {
		cc, ok := isCallTo(x, "path", "stripTrailingSpacesIfOpaque")
		if !ok {
			return false
		}
		y, ok := loadOfField(cc.Args[0], "Url:path")
		return ok && m.Root(y) == u
	}
	has := false
	for _, n := range g.Nodes {
		for _, ins := range n.Instrs {
			if isStrip(n, ins) {
				has = true
			}
		}
	}
	if !has {
		return
	}
	// may the callee (transitively, within the module) store into Url.query / Url.fragment?
	memo := map[*ssa.Function]bool{}
	var mayWrite func(fn *ssa.Function, depth int) bool
	mayWrite = func(fn *ssa.Function, depth int) bool {
		if v, ok := memo[fn]; ok {
			return v
		}
		memo[fn] = false
		if len(fn.Blocks) == 0 {
			return false
		}
		if depth > 8 {
			memo[fn] = true
			return true
		}
		res := false
		for _, b := range fn.Blocks {
			for _, ins := range b.Instrs {
				switch x := ins.(type) {
				case *ssa.Store:
					if fa, ok := x.Addr.(*ssa.FieldAddr); ok {
						if el := fieldElem(fa.X.Type(), fa.Field); el == "Url:query" || el == "Url:fragment" {
							res = true
						}
					}
					// a store through a pointer to a whole Url
					if namedOf(x.Val.Type()) == "Url" {
						if _, isPtr := x.Val.Type().Underlying().(*types.Pointer); !isPtr {
							res = true
						}
					}
				case ssa.CallInstruction:
					cl := x.Common().StaticCallee()
					if cl == nil {
						if x.Common().IsInvoke() || true {
							// dynamic callee: user callbacks get strings, not the URL; interface methods of the module do not exist
							continue
						}
					}
					if c.P.InModule(cl) && mayWrite(cl, depth+1) {
						res = true
					}
				}
			}
		}
		memo[fn] = res
		return res
	}
	type st [2]int // query, fragment
	join := func(a, b st) st {
		var r st
		for i := range r {
			if a[i] == b[i] {
				r[i] = a[i]
			}
		}
		return r
	}
	in := map[*fnode]st{}
	reached := map[*fnode]bool{g.Entry: true}
	work := []*fnode{g.Entry}
	elems := []string{"Url:query", "Url:fragment"}
	type bad struct {
		ins ssa.Instruction
		st  st
	}
	verdict := map[ssa.Instruction]st{}
	var order []ssa.Instruction
	for iter := 0; len(work) > 0 && iter < 20000; iter++ {
		n := work[0]
		work = work[1:]
		cur := in[n]
		for _, ins := range n.Instrs {
			if isStrip(n, ins) {
				if old, ok := verdict[ins]; ok {
					verdict[ins] = join(old, cur)
				} else {
					verdict[ins] = cur
					order = append(order, ins)
				}
				continue
			}
			switch x := ins.(type) {
			case *ssa.Store:
				if fa, ok := x.Addr.(*ssa.FieldAddr); ok {
					el := fieldElem(fa.X.Type(), fa.Field)
					for i, e := range elems {
						if el != e {
							continue
						}
						if n.Root(fa.X) == u && isNilConst(x.Val) {
							cur[i] = 1
						} else {
							cur[i] = 0
						}
					}
				}
			case ssa.CallInstruction:
				if cl := x.Common().StaticCallee(); cl != nil && c.P.InModule(cl) && mayWrite(cl, 0) {
					cur = st{}
				}
			}
		}
		for si, succ := range n.Succs {
			out := cur
			if n.If != nil {
				for i, e := range elems {
					if x, trueIsNil, ok := nilTest(n.If.Cond, e); ok && n.Root(x) == u {
						if (si == 0) == trueIsNil {
							out[i] = 1
						} else {
							out[i] = 2
						}
					}
				}
			}
			if !reached[succ] {
				reached[succ] = true
				in[succ] = out
				work = append(work, succ)
			} else if j := join(in[succ], out); j != in[succ] {
				in[succ] = j
				work = append(work, succ)
			}
		}
	}
	for k, ins := range order {
		v := verdict[ins]
		key := fmt.Sprintf("strip-only/%s#%d", core.FuncName(f), k+1)
		names := []string{"unknown", "nil", "present"}
		s.Check(v[0] == 1 && v[1] == 1, key, c.P.Pos(ins.Pos()), "query and fragment are both nil wherever the trailing spaces of the opaque path are stripped",
			fmt.Sprintf("the trailing spaces of an opaque path are stripped where query is %s and fragment is %s: the standard strips only when both are null, an empty query or fragment still follows the path and keeps the spaces", names[v[0]], names[v[1]]), "C05")
	}
}

// keepsExisting: the stored value is a merge each of whose edges is the list the field already holds (a load of the
// same field of the same URL) or a new list arriving on an edge accepted by freshOK.
func keepsExisting(store *ssa.Store, owner ssa.Value, freshOK func(pred *ssa.BasicBlock) bool) bool {
	phi, ok := store.Val.(*ssa.Phi)
	if !ok {
		return false
	}
	for i, e := range phi.Edges {
		if x, ok := loadOfField(e, "Url:searchParams"); ok && x == owner {
			continue
		}
		if _, isAlloc := e.(*ssa.Alloc); isAlloc && i < len(phi.Block().Preds) && freshOK(phi.Block().Preds[i]) {
			continue
		}
		return false
	}
	return true
}

// guardedEdge: block pb lies on the nil side of a test of owner.searchParams (directly, or of a local copy of it).
func guardedEdge(f *ssa.Function, owner ssa.Value, pb *ssa.BasicBlock, _ ssa.Value) bool {
	for _, b := range f.Blocks {
		iff, ok := lastIf(b)
		if !ok {
			continue
		}
		y, trueIsNil, ok := nilTest(iff.Cond, "Url:searchParams")
		if !ok || y != owner {
			continue
		}
		succ := b.Succs[1]
		if trueIsNil {
			succ = b.Succs[0]
		}
		if len(succ.Preds) == 1 && (succ == pb || succ.Dominates(pb)) {
			return true
		}
	}
	return false
}

// initStartsEmpty: every value init stores into the list field of its receiver descends — through append and the
// choices of a phi — from an empty list: nil, x[:0], make(T, 0, …), or the field itself read where a store of one of
// those dominates the read.
func initStartsEmpty(in *ssa.Function) bool {
	recv := ssa.Value(in.Params[0])
	type storeAt struct {
		st  *ssa.Store
		idx int
	}
	var stores []storeAt
	for _, b := range in.Blocks {
		for i, ins := range b.Instrs {
			if st, ok := ins.(*ssa.Store); ok {
				if fa, ok := fieldAddrOf(st.Addr, "SearchParams:params"); ok && fa.X == recv {
					stores = append(stores, storeAt{st, i})
				}
			}
		}
	}
	emptyLeaf := func(v ssa.Value) bool {
		switch x := v.(type) {
		case *ssa.Const:
			return x.IsNil()
		case *ssa.Slice:
			if k, ok := x.High.(*ssa.Const); ok && k.Value != nil && k.Value.ExactString() == "0" {
				return true
			}
		case *ssa.MakeSlice:
			if k, ok := x.Len.(*ssa.Const); ok && k.Value != nil && k.Value.ExactString() == "0" {
				return true
			}
		}
		return false
	}
	indexOf := func(ins ssa.Instruction) int {
		for i, x := range ins.Block().Instrs {
			if x == ins {
				return i
			}
		}
		return -1
	}
	// a method of the same type that does nothing to the list but empty it (`s.clear()`), called on the receiver,
	// empties it where it is called
	type callAt struct {
		call *ssa.Call
		idx  int
	}
	var clears []callAt
	for _, b := range in.Blocks {
		for i, ins := range b.Instrs {
			call, ok := ins.(*ssa.Call)
			if !ok {
				continue
			}
			g := call.Common().StaticCallee()
			if g == nil || len(g.Blocks) == 0 || len(call.Common().Args) == 0 || call.Common().Args[0] != recv || len(g.Params) == 0 {
				continue
			}
			n, all := 0, true
			for _, gb := range g.Blocks {
				for _, gi := range gb.Instrs {
					if st, ok := gi.(*ssa.Store); ok {
						if fa, ok := fieldAddrOf(st.Addr, "SearchParams:params"); ok && fa.X == ssa.Value(g.Params[0]) {
							n++
							if !emptyLeaf(st.Val) {
								all = false
							}
						}
					}
				}
			}
			// on every path: the emptying store is in the entry block
			inEntry := false
			for _, gi := range g.Blocks[0].Instrs {
				if st, ok := gi.(*ssa.Store); ok {
					if fa, ok := fieldAddrOf(st.Addr, "SearchParams:params"); ok && fa.X == ssa.Value(g.Params[0]) && emptyLeaf(st.Val) {
						inEntry = true
					}
				}
			}
			if n > 0 && all && inEntry {
				clears = append(clears, callAt{call, i})
			}
		}
	}
	if len(stores) == 0 {
		return false
	}
	truncBefore := func(ld *ssa.UnOp) bool {
		for _, sa := range stores {
			if !emptyLeaf(sa.st.Val) {
				continue
			}
			if sa.st.Block() == ld.Block() {
				if sa.idx < indexOf(ld) {
					return true
				}
			} else if sa.st.Block().Dominates(ld.Block()) {
				return true
			}
		}
		for _, ca := range clears {
			if ca.call.Block() == ld.Block() {
				if ca.idx < indexOf(ld) {
					return true
				}
			} else if ca.call.Block().Dominates(ld.Block()) {
				return true
			}
		}
		return false
	}
	seen := map[ssa.Value]bool{}
	var rooted func(v ssa.Value) bool
	rooted = func(v ssa.Value) bool {
		if emptyLeaf(v) {
			return true
		}
		if seen[v] {
			return true
		}
		seen[v] = true
		switch x := v.(type) {
		case *ssa.Call:
			if bi, ok := x.Common().Value.(*ssa.Builtin); ok && bi.Name() == "append" && len(x.Common().Args) > 0 {
				return rooted(x.Common().Args[0])
			}
			// a helper that grows the list it is handed and hands it back: decode(s.params[:0], query)
			if g := x.Common().StaticCallee(); g != nil && len(g.Blocks) > 0 {
				if j := growsOwnParam(g); j >= 0 && j < len(x.Common().Args) {
					return rooted(x.Common().Args[j])
				}
			}
		case *ssa.Phi:
			for _, e := range x.Edges {
				if !rooted(e) {
					return false
				}
			}
			return len(x.Edges) > 0
		case *ssa.Slice:
			return rooted(x.X)
		case *ssa.UnOp:
			if x.Op == token.MUL {
				if fa, ok := fieldAddrOf(x.X, "SearchParams:params"); ok && fa.X == recv {
					return truncBefore(x)
				}
			}
		}
		return false
	}
	for _, sa := range stores {
		if !rooted(sa.st.Val) {
			return false
		}
	}
	return true
}

// growsOwnParam: the index of the slice parameter that every value g returns (single result) descends from through
// append, reslicing and the choices of phis; -1 if there is none.
func growsOwnParam(g *ssa.Function) int {
	if g.Signature.Results().Len() != 1 {
		return -1
	}
	idx := -1
	ok := true
	seen := map[ssa.Value]bool{}
	var walk func(v ssa.Value)
	walk = func(v ssa.Value) {
		if !ok || seen[v] {
			return
		}
		seen[v] = true
		switch x := v.(type) {
		case *ssa.Parameter:
			for i, p := range g.Params {
				if p == x {
					if idx >= 0 && idx != i {
						ok = false
					}
					idx = i
					return
				}
			}
			ok = false
		case *ssa.Call:
			if bi, isB := x.Common().Value.(*ssa.Builtin); isB && bi.Name() == "append" && len(x.Common().Args) > 0 {
				walk(x.Common().Args[0])
				return
			}
			ok = false
		case *ssa.Phi:
			for _, e := range x.Edges {
				walk(e)
			}
		case *ssa.Slice:
			walk(x.X)
		default:
			ok = false
		}
	}
	for _, b := range g.Blocks {
		if r, isRet := b.Instrs[len(b.Instrs)-1].(*ssa.Return); isRet {
			walk(r.Results[0])
		}
	}
	if !ok {
		return -1
	}
	return idx
}
