package rules

// TAB-ipv4limit: the bound of the last IPv4 part and the weights of the others, as functions of a finite index
// (DESIGN §3.5).
//
// The standard rejects an address whose last part is ≥ 256^(5 − n) (n = number of parts, 1..4) and weighs part i of
// the others by 256^(3 − i). Both are expressions over one small integer — however they are written: math.Pow, a
// shift, a table — so they are folded on the SSA form once per value of that integer and compared with the standard.
// Nothing of the parser is executed; an expression the fold cannot follow is left undecided (inventory).

import (
	"fmt"
	"go/token"
	"go/types"
	"math"
	"strings"

	"golang.org/x/tools/go/ssa"

	"wucheck/core"
)

type numFold struct {
	c    *Ctx
	leaf func(v ssa.Value) (float64, bool)
	why  string
}

func isIntElemSlice(t types.Type) bool {
	sl, ok := t.Underlying().(*types.Slice)
	if !ok {
		return false
	}
	_, _, isInt := intTypeInfo(sl.Elem())
	return isInt
}

func (n *numFold) fail(why string) (float64, bool) {
	if n.why == "" {
		n.why = why
	}
	return 0, false
}

func (n *numFold) eval(v ssa.Value, depth int) (float64, bool) {
	if depth > 16 {
		return n.fail("expression too deep")
	}
	if x, ok := n.leaf(v); ok {
		return x, true
	}
	switch x := v.(type) {
	case *ssa.Const:
		if k, ok := constInt(x); ok {
			return float64(k), true
		}
		if x.Value != nil {
			if f, ok := constFloat(x); ok {
				return f, true
			}
		}
		return n.fail("a constant that is not a number")
	case *ssa.Convert:
		in, ok := n.eval(x.X, depth+1)
		if !ok {
			return 0, false
		}
		if _, _, isInt := intTypeInfo(x.Type()); isInt {
			return math.Trunc(in), true
		}
		return in, true
	case *ssa.ChangeType:
		return n.eval(x.X, depth+1)
	case *ssa.BinOp:
		a, ok1 := n.eval(x.X, depth+1)
		b, ok2 := n.eval(x.Y, depth+1)
		if !ok1 || !ok2 {
			return 0, false
		}
		_, _, isInt := intTypeInfo(x.Type())
		switch x.Op {
		case token.ADD:
			return a + b, true
		case token.SUB:
			return a - b, true
		case token.MUL:
			return a * b, true
		case token.QUO:
			if b == 0 {
				return n.fail("division by zero")
			}
			if isInt {
				return math.Trunc(a / b), true
			}
			return a / b, true
		case token.SHL:
			if b < 0 || b > 62 {
				return n.fail("shift count out of range")
			}
			return a * math.Pow(2, b), true
		case token.SHR:
			if b < 0 || b > 62 {
				return n.fail("shift count out of range")
			}
			return math.Floor(a / math.Pow(2, b)), true
		}
		return n.fail("operator " + x.Op.String())
	case *ssa.Call:
		if g := x.Common().StaticCallee(); g != nil && g.String() == "math.Pow" && len(x.Common().Args) == 2 {
			a, ok1 := n.eval(x.Common().Args[0], depth+1)
			b, ok2 := n.eval(x.Common().Args[1], depth+1)
			if ok1 && ok2 {
				return math.Pow(a, b), true
			}
			return 0, false
		}
		// a straight-line helper of the module (`func weight(exp int) int64 { return 1 << (8 * uint(exp)) }`): its
		// result with the arguments folded
		if g := x.Common().StaticCallee(); g != nil && n.c.P.InModule(g) && len(g.Blocks) == 1 && depth < 12 {
			if r, ok := g.Blocks[0].Instrs[len(g.Blocks[0].Instrs)-1].(*ssa.Return); ok && len(r.Results) == 1 {
				args := x.Common().Args
				sub := &numFold{c: n.c}
				sub.leaf = func(v ssa.Value) (float64, bool) {
					if p, ok := v.(*ssa.Parameter); ok && p.Parent() == g {
						for i, q := range g.Params {
							if q == p && i < len(args) {
								return n.eval(args[i], depth+1)
							}
						}
					}
					return 0, false
				}
				if v, ok := sub.eval(r.Results[0], depth+1); ok {
					return v, true
				}
				if n.why == "" {
					n.why = sub.why
				}
				return 0, false
			}
		}
		return n.fail("a call the fold does not know")
	case *ssa.UnOp:
		if x.Op == token.SUB {
			a, ok := n.eval(x.X, depth+1)
			return -a, ok
		}
		if x.Op != token.MUL {
			return n.fail("operator " + x.Op.String())
		}
		// an element of a package-level array of integers that nothing writes after initialisation
		ia, ok := x.X.(*ssa.IndexAddr)
		if !ok {
			return n.fail("a load that is not an array element")
		}
		g, ok := ia.X.(*ssa.Global)
		if !ok {
			return n.fail("an element of something other than a package-level array")
		}
		seTables(n.c)
		xs, ok := seIntArrays(n.c)[g.String()]
		if !ok {
			return n.fail("the array " + g.Name() + " was not folded")
		}
		if writtenOutsideInit(n.c, g) {
			return n.fail("the array " + g.Name() + " is written after initialisation")
		}
		i, ok := n.eval(ia.Index, depth+1)
		if !ok {
			return 0, false
		}
		if i < 0 || int(i) >= len(xs) {
			return n.fail(fmt.Sprintf("index %v outside the array %s", i, g.Name()))
		}
		return float64(xs[int(i)]), true
	}
	return n.fail(fmt.Sprintf("%T", v))
}

func constFloat(k *ssa.Const) (float64, bool) {
	if k.Value == nil {
		return 0, false
	}
	defer func() { recover() }()
	f := k.Float64()
	return f, true
}

// writtenOutsideInit: some function other than a package initialiser stores into (an element of) the global.
func writtenOutsideInit(c *Ctx, g *ssa.Global) bool {
	for _, f := range c.P.ModFns {
		if isInitializer(f) {
			continue
		}
		for _, b := range f.Blocks {
			for _, ins := range b.Instrs {
				st, ok := ins.(*ssa.Store)
				if !ok {
					continue
				}
				a := st.Addr
				for {
					switch x := a.(type) {
					case *ssa.IndexAddr:
						a = x.X
						continue
					case *ssa.FieldAddr:
						a = x.X
						continue
					}
					break
				}
				if a == ssa.Value(g) {
					return true
				}
			}
		}
	}
	return false
}

// hasLeaf: the expression tree of v (through arithmetic, conversions, math.Pow and array elements) contains a value
// for which isLeaf holds.
func hasLeaf(v ssa.Value, isLeaf func(ssa.Value) bool, depth int) bool {
	if depth > 16 {
		return false
	}
	if isLeaf(v) {
		return true
	}
	switch x := v.(type) {
	case *ssa.Convert:
		return hasLeaf(x.X, isLeaf, depth+1)
	case *ssa.ChangeType:
		return hasLeaf(x.X, isLeaf, depth+1)
	case *ssa.BinOp:
		return hasLeaf(x.X, isLeaf, depth+1) || hasLeaf(x.Y, isLeaf, depth+1)
	case *ssa.Call:
		if g := x.Common().StaticCallee(); g != nil && (g.String() == "math.Pow" || (len(g.Blocks) == 1 && g.Pkg != nil && strings.HasPrefix(g.Pkg.Pkg.Path(), core.ModPath))) {
			for _, a := range x.Common().Args {
				if hasLeaf(a, isLeaf, depth+1) {
					return true
				}
			}
		}
	case *ssa.UnOp:
		if ia, ok := x.X.(*ssa.IndexAddr); ok && x.Op == token.MUL {
			if _, isG := ia.X.(*ssa.Global); isG {
				return hasLeaf(ia.Index, isLeaf, depth+1)
			}
		}
		if x.Op == token.SUB {
			return hasLeaf(x.X, isLeaf, depth+1)
		}
	}
	return false
}

func init() {
	register(&Rule{
		Name:  "TAB-ipv4limit",
		Doc:   "the test in front of the failing IPv4OutOfRangePart report that depends on the number of parts rejects exactly a last part ≥ 256^(5−n) for n = 1..4, and a multiplier (or shift) that depends on the position i of one of the other parts is 256^(3−i) for i = 0..2: the expressions are folded on the SSA form for each value of n and i (math.Pow, shifts, arithmetic, elements of package-level integer arrays that nothing writes after initialisation)",
		Props: []string{"C07", "C01"},
		Floor: 0,
		Run: func(c *Ctx, s *core.Sink) {
			em := buildErrModel(c)
			inv := func(key, pos, why string) {
				s.Obs = append(s.Obs, core.Obligation{Rule: s.Rule, Construct: key, Pos: pos, Verdict: core.Discharged, Fact: "inventory: not decided (" + why + ")", Props: s.Props, Trivial: true})
			}
			isLenLeaf := func(v ssa.Value) bool {
				a, ok := lenArg(v)
				return ok && isIntElemSlice(a.Type())
			}
			fns := map[*ssa.Function]bool{}
			nLimit := 0
			for _, st := range em.Sites {
				if st.TypeName != "IPv4OutOfRangePart" || !st.FailKnown || !st.Failure {
					continue
				}
				f := st.Caller
				for _, fact := range Facts(c, f).At(st.Call.Block()) {
					bo, ok := fact.Cond.(*ssa.BinOp)
					if !ok {
						continue
					}
					rel, ok := relOf(bo.Op, fact.Val)
					if !ok {
						continue
					}
					x, l := bo.X, bo.Y
					// one side reads a part (an element of a slice of integers), the other depends on the number of parts
					isPart := func(v ssa.Value) bool {
						ld, ok := v.(*ssa.UnOp)
						if !ok || ld.Op != token.MUL {
							return false
						}
						ia, ok := ld.X.(*ssa.IndexAddr)
						return ok && isIntElemSlice(ia.X.Type())
					}
					switch {
					case hasLeaf(x, isPart, 0) && hasLeaf(l, isLenLeaf, 0) && !hasLeaf(l, isPart, 0):
					case hasLeaf(l, isPart, 0) && hasLeaf(x, isLenLeaf, 0) && !hasLeaf(x, isPart, 0):
						x, l = l, x
						rel = mirror(rel)
					default:
						continue
					}
					// x rel l holds where the address is rejected; l depends on the number of parts. (x may read the last
					// element — numbers[len-1] — but must not otherwise depend on the count.)
					nLimit++
					fns[f] = true
					key := fmt.Sprintf("ipv4limit/%s/last#%d", core.FuncName(f), nLimit)
					pos := c.P.Pos(bo.Pos())
					if rel != token.GEQ && rel != token.GTR {
						inv(key, pos, "the rejecting test is not of the form part ≥ bound / part > bound")
						continue
					}
					bad, undec := "", ""
					for n := 1; n <= 4 && bad == "" && undec == ""; n++ {
						var nf *numFold
						nf = &numFold{c: c, leaf: func(v ssa.Value) (float64, bool) {
							if !isLenLeaf(v) {
								return 0, false
							}
							// the length of a re-slice of the parts (`leading := numbers[:len(numbers)-1]`) is its high bound
							// minus its low bound, themselves folded; the length of anything else is the number of parts
							a, _ := lenArg(v)
							if sl, ok := a.(*ssa.Slice); ok && isIntElemSlice(sl.X.Type()) && sl.Max == nil {
								lo, hi := 0.0, float64(n)
								if sl.Low != nil {
									x, ok := nf.eval(sl.Low, 1)
									if !ok {
										return 0, false
									}
									lo = x
								}
								if sl.High != nil {
									x, ok := nf.eval(sl.High, 1)
									if !ok {
										return 0, false
									}
									hi = x
								}
								return hi - lo, true
							}
							return float64(n), true
						}}
						lim, ok := nf.eval(l, 0)
						if !ok {
							undec = nf.why
							break
						}
						first := lim // smallest rejected value
						if rel == token.GTR {
							first = lim + 1
						}
						if want := math.Pow(256, float64(5-n)); first != want {
							bad = fmt.Sprintf("with %d parts the last part is rejected from %.0f on, the standard rejects it from 256^%d = %.0f on", n, first, 5-n, want)
						}
					}
					switch {
					case undec != "":
						inv(key, pos, undec)
					case bad != "":
						s.Bad(key, pos, bad+": an address is accepted that the standard rejects, or the reverse")
					default:
						s.OK(key, pos, "for 1, 2, 3 and 4 parts the last part is rejected from 256^4, 256^3, 256^2, 256 on")
					}
				}
			}
			if nLimit == 0 {
				// the bound may be written in a form the fold does not read (a switch over the count, a loop): not decided
				inv("ipv4limit/last", "-", "no test of a part against an expression over the number of parts stands in front of a failing IPv4OutOfRangePart report")
				return
			}
			// the weights of the other parts
			nW := 0
			for f := range fns {
				// the key of a range loop over a slice: go/ssa carries `rangeindex` (a phi that starts at -1) and hands the
				// body rangeindex + 1
				isKeyLeaf := func(v ssa.Value) bool {
					bo, ok := v.(*ssa.BinOp)
					if !ok || bo.Op != token.ADD {
						return false
					}
					phi, isPhi := bo.X.(*ssa.Phi)
					k, isK := constInt(bo.Y)
					return isPhi && isK && k == 1 && phi.Comment == "rangeindex"
				}
				type cand struct {
					bo *ssa.BinOp
					m  ssa.Value
				}
				var cands []cand
				for _, b := range f.Blocks {
					for _, ins := range b.Instrs {
						bo, ok := ins.(*ssa.BinOp)
						if !ok || (bo.Op != token.MUL && bo.Op != token.SHL) {
							continue
						}
						switch {
						case bo.Op == token.SHL && hasLeaf(bo.Y, isKeyLeaf, 0) && !hasLeaf(bo.X, isKeyLeaf, 0):
							cands = append(cands, cand{bo, bo.Y})
						case bo.Op == token.MUL && hasLeaf(bo.Y, isKeyLeaf, 0) && !hasLeaf(bo.X, isKeyLeaf, 0):
							cands = append(cands, cand{bo, bo.Y})
						case bo.Op == token.MUL && hasLeaf(bo.X, isKeyLeaf, 0) && !hasLeaf(bo.Y, isKeyLeaf, 0):
							cands = append(cands, cand{bo, bo.X})
						}
					}
				}
				for _, cd := range cands {
					{
						bo, m := cd.bo, cd.m
						// only the outermost such operation: an inner `8 * (3-i)` feeds the shift
						inner := false
						for _, o := range cands {
							if o.bo != bo && hasLeaf(o.m, func(x ssa.Value) bool { return x == ssa.Value(bo) }, 0) {
								inner = true
							}
						}
						if inner {
							continue
						}
						nW++
						key := fmt.Sprintf("ipv4limit/%s/weight#%d", core.FuncName(f), nW)
						pos := c.P.Pos(bo.Pos())
						bad, undec := "", ""
						for i := 0; i <= 2 && bad == "" && undec == ""; i++ {
							nf := &numFold{c: c, leaf: func(v ssa.Value) (float64, bool) {
								if isKeyLeaf(v) {
									return float64(i), true
								}
								return 0, false
							}}
							w, ok := nf.eval(m, 0)
							if !ok {
								undec = nf.why
								break
							}
							if bo.Op == token.SHL {
								w = math.Pow(2, w)
							}
							if want := math.Pow(256, float64(3-i)); w != want {
								bad = fmt.Sprintf("part %d is weighed by %.0f, the standard weighs it by 256^%d = %.0f", i, w, 3-i, want)
							}
						}
						switch {
						case undec != "":
							inv(key, pos, undec)
						case bad != "":
							s.Bad(key, pos, bad+": the address assembled is not the one the parts denote")
						default:
							s.OK(key, pos, "parts 0, 1, 2 are weighed by 256^3, 256^2, 256")
						}
					}
				}
			}
		},
	})
}
