package rules

// What does applying the option returned by a With* constructor do? A small abstract evaluation that follows the
// returned value through wrappers (newFuncParserOption, &funcParserOption{f: …}, interface conversions) to the closure
// that is finally run with the options pointer, and collects its stores — looking through function-typed parameters
// bound to closures (flagOption(func(o) *bool { return &o.x })).

import (
	"fmt"
	"go/token"
	"go/types"
	"strings"

	"golang.org/x/tools/go/ssa"

	"wucheck/core"
)

type aval struct {
	kind string // "opt", "field", "const", "ctorparam", "closure", "unknown"
	typ  string // field: owning struct type name
	name string // field name
	v    ssa.Value
	fn   *ssa.Function
	env  map[ssa.Value]aval
}

type aStore struct {
	addr, val aval
	pos       token.Pos
}

type applied struct {
	stores []aStore
	other  bool
	why    string
}

type optEval struct {
	c     *Ctx
	ctor  *ssa.Function
	out   *applied
	depth int
}

func (e *optEval) eval(v ssa.Value, env map[ssa.Value]aval) aval {
	if a, ok := env[v]; ok {
		return a
	}
	switch x := v.(type) {
	case *ssa.Const:
		return aval{kind: "const", v: x}
	case *ssa.Parameter:
		if x.Parent() == e.ctor {
			return aval{kind: "ctorparam", v: x}
		}
	case *ssa.Function:
		return aval{kind: "closure", fn: x, env: map[ssa.Value]aval{}}
	case *ssa.MakeClosure:
		fn := x.Fn.(*ssa.Function)
		ne := map[ssa.Value]aval{}
		for i, fv := range fn.FreeVars {
			ne[fv] = e.eval(x.Bindings[i], env)
		}
		return aval{kind: "closure", fn: fn, env: ne}
	case *ssa.MakeInterface:
		return e.eval(x.X, env)
	case *ssa.ChangeInterface:
		return e.eval(x.X, env)
	case *ssa.ChangeType:
		return e.eval(x.X, env)
	case *ssa.Alloc:
		// a cell holding a captured parameter: written once; or a wrapper struct with one function-typed field
		var only *ssa.Store
		n := 0
		for _, r := range *x.Referrers() {
			switch y := r.(type) {
			case *ssa.Store:
				if y.Addr == ssa.Value(x) {
					n++
					only = y
				}
			case *ssa.FieldAddr:
				for _, r2 := range *y.Referrers() {
					if st, ok := r2.(*ssa.Store); ok && st.Addr == ssa.Value(y) {
						inner := e.eval(st.Val, env)
						if inner.kind == "closure" {
							return inner
						}
					}
				}
			}
		}
		if n == 1 {
			inner := e.eval(only.Val, env)
			return aval{kind: "cell", v: x, env: map[ssa.Value]aval{nil: inner}}
		}
		// a struct describing the option as data: remember what each field was given
		if _, isStruct := structOf(x.Type()); isStruct && n == 0 {
			fields := map[ssa.Value]aval{}
			for _, r := range *x.Referrers() {
				if fa, ok := r.(*ssa.FieldAddr); ok {
					for _, r2 := range *fa.Referrers() {
						if st, ok := r2.(*ssa.Store); ok && st.Addr == ssa.Value(fa) {
							fields[fieldKey(fa.Field)] = e.eval(st.Val, env)
						}
					}
				}
			}
			return aval{kind: "struct", v: x, env: fields}
		}
	case *ssa.UnOp:
		if x.Op == token.MUL {
			in := e.eval(x.X, env)
			if in.kind == "cell" {
				return in.env[nil]
			}
			if in.kind == "field" {
				return aval{kind: "load", typ: in.typ, name: in.name}
			}
			if in.kind == "structfield" {
				if v, ok := in.env[fieldKey(int(in.v.(*ssa.FieldAddr).Field))]; ok {
					return v
				}
				return aval{kind: "zero"}
			}
		}
	case *ssa.FieldAddr:
		in := e.eval(x.X, env)
		if in.kind == "struct" {
			return aval{kind: "structfield", v: x, env: in.env}
		}
		if in.kind == "field" {
			// a field of a struct of the module that the options hold by value: an option field in its own right
			if _, isStruct := structOf(x.X.Type()); isStruct && strings.HasPrefix(typePkgPath(x.X.Type()), core.ModPath) {
				el := fieldElem(x.X.Type(), x.Field)
				for i := 0; i < len(el); i++ {
					if el[i] == ':' {
						return aval{kind: "field", typ: in.typ, name: el[i+1:]}
					}
				}
			}
		}
		if in.kind == "opt" {
			el := fieldElem(x.X.Type(), x.Field)
			for i := 0; i < len(el); i++ {
				if el[i] == ':' {
					return aval{kind: "field", typ: el[:i], name: el[i+1:]}
				}
			}
		}
	case *ssa.Call:
		return e.call(x, env)
	}
	return aval{kind: "unknown", v: v}
}

// call evaluates a call whose callee is known (a module function, or a function value bound to a closure) by walking
// the callee: its stores are collected, its result returned.
func (e *optEval) call(call *ssa.Call, env map[ssa.Value]aval) aval {
	if e.depth > 5 {
		return aval{kind: "unknown"}
	}
	var fn *ssa.Function
	var fenv map[ssa.Value]aval
	if cl := call.Common().StaticCallee(); cl != nil && len(cl.Blocks) > 0 && e.c.P.InModule(cl) {
		fn, fenv = cl, map[ssa.Value]aval{}
		if mc, ok := call.Common().Value.(*ssa.MakeClosure); ok {
			cv := e.eval(mc, env)
			fenv = cv.env
		}
	} else if !call.Common().IsInvoke() {
		cv := e.eval(call.Common().Value, env)
		if cv.kind == "closure" {
			fn, fenv = cv.fn, cv.env
		}
	}
	if fn == nil {
		return aval{kind: "unknown", v: call}
	}
	ne := map[ssa.Value]aval{}
	for k, v := range fenv {
		ne[k] = v
	}
	for i, p := range fn.Params {
		if i < len(call.Common().Args) {
			ne[p] = e.eval(call.Common().Args[i], env)
		}
	}
	e.depth++
	defer func() { e.depth-- }()
	return e.run(fn, ne)
}

// run walks a function body from its entry, following a branch one way when its condition is decided by the abstract
// values (a switch over a constant tag of an option described as data) and both ways otherwise (which is then reported
// as "the option decides at application time"); stores into the options are collected.
func (e *optEval) run(fn *ssa.Function, env map[ssa.Value]aval) aval {
	var ret aval
	nret := 0
	seen := map[*ssa.BasicBlock]bool{}
	var walk func(b *ssa.BasicBlock)
	walk = func(b *ssa.BasicBlock) {
		if seen[b] {
			return
		}
		seen[b] = true
		for _, ins := range b.Instrs {
			switch x := ins.(type) {
			case *ssa.Store:
				addr := e.eval(x.Addr, env)
				switch addr.kind {
				case "field":
					e.out.stores = append(e.out.stores, aStore{addr: addr, val: e.eval(x.Val, env), pos: x.Pos()})
				case "cell", "structfield":
					// initialisation of a capture cell / of the option's own description
				default:
					if _, isAlloc := stripAddr(x.Addr).(*ssa.Alloc); isAlloc {
						continue // building a local wrapper value
					}
					e.out.stores = append(e.out.stores, aStore{addr: addr, val: e.eval(x.Val, env), pos: x.Pos()})
				}
			case *ssa.Call:
				r := e.call(x, env)
				if r.kind == "unknown" && r.v == ssa.Value(x) {
					e.out.other = true
				}
				env[x] = r
			case *ssa.Go, *ssa.Defer, *ssa.MapUpdate, *ssa.Send:
				e.out.other = true
			case *ssa.If:
				if v, ok := e.decide(x.Cond, env); ok {
					if v {
						walk(b.Succs[0])
					} else {
						walk(b.Succs[1])
					}
					return
				}
				e.out.other = true // an option that decides at application time is outside the shape
			case *ssa.Return:
				nret++
				if len(x.Results) == 1 {
					ret = e.eval(x.Results[0], env)
				}
			}
		}
		for _, sc := range b.Succs {
			walk(sc)
		}
	}
	if len(fn.Blocks) > 0 {
		walk(fn.Blocks[0])
	}
	if nret != 1 {
		return aval{kind: "unknown"}
	}
	return ret
}

// decide: a comparison of two constants (after abstract evaluation).
func (e *optEval) decide(cond ssa.Value, env map[ssa.Value]aval) (bool, bool) {
	bo, ok := cond.(*ssa.BinOp)
	if !ok || (bo.Op != token.EQL && bo.Op != token.NEQ) {
		return false, false
	}
	l, r := e.eval(bo.X, env), e.eval(bo.Y, env)
	kv := func(a aval) (string, bool) {
		if a.kind == "zero" {
			return "0", true
		}
		if a.kind != "const" {
			return "", false
		}
		k, ok := a.v.(*ssa.Const)
		if !ok || k.Value == nil {
			return "", false
		}
		return k.Value.ExactString(), true
	}
	ls, ok1 := kv(l)
	rs, ok2 := kv(r)
	if !ok1 || !ok2 {
		return false, false
	}
	return (ls == rs) == (bo.Op == token.EQL), true
}

type fieldKey int

func (fieldKey) Name() string                  { return "" }
func (fieldKey) String() string                { return "" }
func (fieldKey) Type() types.Type              { return nil }
func (fieldKey) Parent() *ssa.Function         { return nil }
func (fieldKey) Referrers() *[]ssa.Instruction { return nil }
func (fieldKey) Pos() token.Pos                { return token.NoPos }

func stripAddr(v ssa.Value) ssa.Value {
	for {
		switch x := v.(type) {
		case *ssa.FieldAddr:
			v = x.X
		case *ssa.IndexAddr:
			v = x.X
		default:
			return v
		}
	}
}

// applyOption: the stores performed on the options when the value returned by constructor f is applied.
func applyOption(c *Ctx, f *ssa.Function, optType string) *applied {
	out := &applied{}
	e := &optEval{c: c, ctor: f, out: out}
	// the constructor itself: evaluate to the closure (its own wrapper-building stores are not option stores)
	scratch := &applied{}
	e.out = scratch
	env := map[ssa.Value]aval{}
	res := e.run(f, env)
	if res.kind == "struct" {
		// the option is data interpreted by a method of its type that takes the options: run that method
		al := res.v.(*ssa.Alloc)
		var method *ssa.Function
		ms := c.P.SSA.MethodSets.MethodSet(al.Type())
		for i := 0; i < ms.Len(); i++ {
			m := c.P.SSA.MethodValue(ms.At(i))
			if m == nil || len(m.Params) != 2 || len(m.Blocks) == 0 {
				continue
			}
			if _, isPtr := m.Params[1].Type().Underlying().(*types.Pointer); !isPtr {
				continue
			}
			if _, isStruct := structOf(m.Params[1].Type()); !isStruct || namedOf(m.Params[1].Type()) != optType {
				continue
			}
			if method != nil {
				out.why = "the option's type has more than one method taking the options"
				return out
			}
			method = m
		}
		if method == nil {
			out.why = "the option is a struct whose type has no method taking the options"
			return out
		}
		e.out = out
		ne := map[ssa.Value]aval{method.Params[0]: res, method.Params[1]: {kind: "opt"}}
		e.run(method, ne)
		return out
	}
	if res.kind != "closure" {
		out.why = fmt.Sprintf("the constructor does not return a closure wrapped as an option (%s)", res.kind)
		return out
	}
	if len(res.fn.Params) != 1 {
		out.why = "the option's function does not take exactly the options"
		return out
	}
	e.out = out
	ne := map[ssa.Value]aval{}
	for k, v := range res.env {
		ne[k] = v
	}
	ne[res.fn.Params[0]] = aval{kind: "opt"}
	e.run(res.fn, ne)
	return out
}
