package rules

// What does applying the option returned by a With* constructor do? A small abstract evaluation that follows the
// returned value through wrappers (newFuncParserOption, &funcParserOption{f: …}, interface conversions) to the closure
// that is finally run with the options pointer, and collects its stores — looking through function-typed parameters
// bound to closures (flagOption(func(o) *bool { return &o.x })).

import (
	"fmt"
	"go/token"

	"golang.org/x/tools/go/ssa"
)

type aval struct {
	kind string // "opt", "field", "const", "ctorparam", "closure", "unknown"
	typ  string // field: owning struct type name
	name string // field name
	v    ssa.Value
	fn   *ssa.Function
	env  map[ssa.Value]aval
}

type aStore struct {
	addr, val aval
	pos       token.Pos
}

type applied struct {
	stores []aStore
	other  bool
	why    string
}

type optEval struct {
	c     *Ctx
	ctor  *ssa.Function
	out   *applied
	depth int
}

func (e *optEval) eval(v ssa.Value, env map[ssa.Value]aval) aval {
	if a, ok := env[v]; ok {
		return a
	}
	switch x := v.(type) {
	case *ssa.Const:
		return aval{kind: "const", v: x}
	case *ssa.Parameter:
		if x.Parent() == e.ctor {
			return aval{kind: "ctorparam", v: x}
		}
	case *ssa.Function:
		return aval{kind: "closure", fn: x, env: map[ssa.Value]aval{}}
	case *ssa.MakeClosure:
		fn := x.Fn.(*ssa.Function)
		ne := map[ssa.Value]aval{}
		for i, fv := range fn.FreeVars {
			ne[fv] = e.eval(x.Bindings[i], env)
		}
		return aval{kind: "closure", fn: fn, env: ne}
	case *ssa.MakeInterface:
		return e.eval(x.X, env)
	case *ssa.ChangeInterface:
		return e.eval(x.X, env)
	case *ssa.ChangeType:
		return e.eval(x.X, env)
	case *ssa.Alloc:
		// a cell holding a captured parameter: written once; or a wrapper struct with one function-typed field
		var only *ssa.Store
		n := 0
		for _, r := range *x.Referrers() {
			switch y := r.(type) {
			case *ssa.Store:
				if y.Addr == ssa.Value(x) {
					n++
					only = y
				}
			case *ssa.FieldAddr:
				for _, r2 := range *y.Referrers() {
					if st, ok := r2.(*ssa.Store); ok && st.Addr == ssa.Value(y) {
						inner := e.eval(st.Val, env)
						if inner.kind == "closure" {
							return inner
						}
					}
				}
			}
		}
		if n == 1 {
			inner := e.eval(only.Val, env)
			return aval{kind: "cell", v: x, env: map[ssa.Value]aval{nil: inner}}
		}
	case *ssa.UnOp:
		if x.Op == token.MUL {
			in := e.eval(x.X, env)
			if in.kind == "cell" {
				return in.env[nil]
			}
			if in.kind == "field" {
				return aval{kind: "load", typ: in.typ, name: in.name}
			}
		}
	case *ssa.FieldAddr:
		in := e.eval(x.X, env)
		if in.kind == "opt" {
			el := fieldElem(x.X.Type(), x.Field)
			for i := 0; i < len(el); i++ {
				if el[i] == ':' {
					return aval{kind: "field", typ: el[:i], name: el[i+1:]}
				}
			}
		}
	case *ssa.Call:
		return e.call(x, env)
	}
	return aval{kind: "unknown", v: v}
}

// call evaluates a call whose callee is known (a module function, or a function value bound to a closure) by walking
// the callee: its stores are collected, its result returned.
func (e *optEval) call(call *ssa.Call, env map[ssa.Value]aval) aval {
	if e.depth > 5 {
		return aval{kind: "unknown"}
	}
	var fn *ssa.Function
	var fenv map[ssa.Value]aval
	if cl := call.Common().StaticCallee(); cl != nil && len(cl.Blocks) > 0 && e.c.P.InModule(cl) {
		fn, fenv = cl, map[ssa.Value]aval{}
		if mc, ok := call.Common().Value.(*ssa.MakeClosure); ok {
			cv := e.eval(mc, env)
			fenv = cv.env
		}
	} else if !call.Common().IsInvoke() {
		cv := e.eval(call.Common().Value, env)
		if cv.kind == "closure" {
			fn, fenv = cv.fn, cv.env
		}
	}
	if fn == nil {
		return aval{kind: "unknown", v: call}
	}
	ne := map[ssa.Value]aval{}
	for k, v := range fenv {
		ne[k] = v
	}
	for i, p := range fn.Params {
		if i < len(call.Common().Args) {
			ne[p] = e.eval(call.Common().Args[i], env)
		}
	}
	e.depth++
	defer func() { e.depth-- }()
	return e.run(fn, ne)
}

// run walks a function body (all blocks; the helpers involved are straight-line) collecting stores into the options.
func (e *optEval) run(fn *ssa.Function, env map[ssa.Value]aval) aval {
	var ret aval
	nret := 0
	for _, b := range fn.Blocks {
		for _, ins := range b.Instrs {
			switch x := ins.(type) {
			case *ssa.Store:
				addr := e.eval(x.Addr, env)
				switch addr.kind {
				case "field":
					e.out.stores = append(e.out.stores, aStore{addr: addr, val: e.eval(x.Val, env), pos: x.Pos()})
				case "cell":
					// initialisation of a capture cell
				default:
					if _, isAlloc := stripAddr(x.Addr).(*ssa.Alloc); isAlloc {
						continue // building a local wrapper value
					}
					e.out.stores = append(e.out.stores, aStore{addr: addr, val: e.eval(x.Val, env), pos: x.Pos()})
				}
			case *ssa.Call:
				r := e.call(x, env)
				if r.kind == "unknown" && r.v == ssa.Value(x) {
					e.out.other = true
				}
				env[x] = r
			case *ssa.Go, *ssa.Defer, *ssa.MapUpdate, *ssa.Send:
				e.out.other = true
			case *ssa.If:
				e.out.other = true // an option that decides at application time is outside the shape
			case *ssa.Return:
				nret++
				if len(x.Results) == 1 {
					ret = e.eval(x.Results[0], env)
				}
			}
		}
	}
	if nret != 1 {
		return aval{kind: "unknown"}
	}
	return ret
}

func stripAddr(v ssa.Value) ssa.Value {
	for {
		switch x := v.(type) {
		case *ssa.FieldAddr:
			v = x.X
		case *ssa.IndexAddr:
			v = x.X
		default:
			return v
		}
	}
}

// applyOption: the stores performed on the options when the value returned by constructor f is applied.
func applyOption(c *Ctx, f *ssa.Function) *applied {
	out := &applied{}
	e := &optEval{c: c, ctor: f, out: out}
	// the constructor itself: evaluate to the closure (its own wrapper-building stores are not option stores)
	scratch := &applied{}
	e.out = scratch
	env := map[ssa.Value]aval{}
	res := e.run(f, env)
	if res.kind != "closure" {
		out.why = fmt.Sprintf("the constructor does not return a closure wrapped as an option (%s)", res.kind)
		return out
	}
	if len(res.fn.Params) != 1 {
		out.why = "the option's function does not take exactly the options"
		return out
	}
	e.out = out
	ne := map[ssa.Value]aval{}
	for k, v := range res.env {
		ne[k] = v
	}
	ne[res.fn.Params[0]] = aval{kind: "opt"}
	e.run(res.fn, ne)
	return out
}
