package rules

// TAB-ipv4prefix: the radix/prefix decision of the IPv4 number parser as a decision table.
//
// The conditions between the function entry and the strconv.ParseInt/ParseUint call are built from a few library
// predicates over the text (len, strings.HasPrefix/HasSuffix, ==, byte tests). A valuation of those atoms is
// realisable iff some text produces it; because every atom only looks at a bounded prefix (or the length up to a
// constant), the texts over the constants' alphabet up to the largest constant length + 1 realise every realisable
// valuation. For each of them the DAG is walked (conditions that are not such atoms branch both ways) and the
// (radix, stripped prefix) reaching the conversion is compared with the standard's table.

import (
	"fmt"
	"go/constant"
	"go/token"
	"go/types"
	"sort"
	"strings"

	"golang.org/x/tools/go/ssa"

	"wucheck/core"
)

type dval struct {
	kind string // "str", "int", "bool", "" (unknown)
	s    string
	i    int64
	b    bool
}

type dwalk struct {
	text   *ssa.Parameter
	w      string
	phi    map[*ssa.Phi]ssa.Value
	oob    bool
	consts map[string]bool
	depth  int
}

func (d *dwalk) eval(v ssa.Value) dval {
	switch x := v.(type) {
	case *ssa.Parameter:
		if x == d.text {
			return dval{kind: "str", s: d.w}
		}
	case *ssa.Const:
		if x.Value == nil {
			return dval{}
		}
		switch x.Value.Kind() {
		case constant.String:
			return dval{kind: "str", s: constant.StringVal(x.Value)}
		case constant.Int:
			n, _ := constant.Int64Val(x.Value)
			return dval{kind: "int", i: n}
		case constant.Bool:
			return dval{kind: "bool", b: constant.BoolVal(x.Value)}
		}
	case *ssa.Phi:
		if e, ok := d.phi[x]; ok {
			return d.eval(e)
		}
	case *ssa.Convert:
		in := d.eval(x.X)
		if in.kind == "int" && isIntType(x.Type()) {
			return in
		}
	case *ssa.Extract:
		// one result of a module helper that looks at the text only (picks radix and stripped text together)
		if hc, ok := x.Tuple.(*ssa.Call); ok {
			if rs, ok := d.callTuple(hc); ok && x.Index < len(rs) {
				return rs[x.Index]
			}
		}
	case *ssa.Slice:
		sv := d.eval(x.X)
		if sv.kind != "str" || x.Max != nil {
			return dval{}
		}
		lo, hi := int64(0), int64(len(sv.s))
		if x.Low != nil {
			l := d.eval(x.Low)
			if l.kind != "int" {
				return dval{}
			}
			lo = l.i
		}
		if x.High != nil {
			h := d.eval(x.High)
			if h.kind != "int" {
				return dval{}
			}
			hi = h.i
		}
		if lo < 0 || hi > int64(len(sv.s)) || lo > hi {
			d.oob = true
			return dval{}
		}
		return dval{kind: "str", s: sv.s[lo:hi]}
	case *ssa.Lookup:
		return d.index(x.X, x.Index)
	case *ssa.Index:
		return d.index(x.X, x.Index)
	case *ssa.UnOp:
		if x.Op == token.NOT {
			in := d.eval(x.X)
			if in.kind == "bool" {
				return dval{kind: "bool", b: !in.b}
			}
		}
	case *ssa.BinOp:
		l, r := d.eval(x.X), d.eval(x.Y)
		if l.kind == "" || l.kind != r.kind {
			return dval{}
		}
		switch l.kind {
		case "int":
			switch x.Op {
			case token.ADD:
				return dval{kind: "int", i: l.i + r.i}
			case token.SUB:
				return dval{kind: "int", i: l.i - r.i}
			case token.EQL:
				return dval{kind: "bool", b: l.i == r.i}
			case token.NEQ:
				return dval{kind: "bool", b: l.i != r.i}
			case token.LSS:
				return dval{kind: "bool", b: l.i < r.i}
			case token.LEQ:
				return dval{kind: "bool", b: l.i <= r.i}
			case token.GTR:
				return dval{kind: "bool", b: l.i > r.i}
			case token.GEQ:
				return dval{kind: "bool", b: l.i >= r.i}
			}
		case "str":
			switch x.Op {
			case token.EQL:
				return dval{kind: "bool", b: l.s == r.s}
			case token.NEQ:
				return dval{kind: "bool", b: l.s != r.s}
			case token.ADD:
				return dval{kind: "str", s: l.s + r.s}
			}
		case "bool":
			switch x.Op {
			case token.EQL:
				return dval{kind: "bool", b: l.b == r.b}
			case token.NEQ:
				return dval{kind: "bool", b: l.b != r.b}
			}
		}
	case *ssa.Call:
		if bi, ok := x.Common().Value.(*ssa.Builtin); ok && bi.Name() == "len" {
			if a := d.eval(x.Common().Args[0]); a.kind == "str" {
				return dval{kind: "int", i: int64(len(a.s))}
			}
			return dval{}
		}
		cl := x.Common().StaticCallee()
		if cl == nil {
			return dval{}
		}
		args := x.Common().Args
		switch cl.String() {
		case "strings.HasPrefix", "strings.HasSuffix", "strings.TrimPrefix", "strings.TrimSuffix", "strings.EqualFold":
			a, b := d.eval(args[0]), d.eval(args[1])
			if a.kind != "str" || b.kind != "str" {
				return dval{}
			}
			switch cl.Name() {
			case "HasPrefix":
				return dval{kind: "bool", b: strings.HasPrefix(a.s, b.s)}
			case "HasSuffix":
				return dval{kind: "bool", b: strings.HasSuffix(a.s, b.s)}
			case "TrimPrefix":
				return dval{kind: "str", s: strings.TrimPrefix(a.s, b.s)}
			case "TrimSuffix":
				return dval{kind: "str", s: strings.TrimSuffix(a.s, b.s)}
			case "EqualFold":
				return dval{kind: "bool", b: strings.EqualFold(a.s, b.s)}
			}
		case "strings.ToLower", "strings.ToUpper":
			a := d.eval(args[0])
			if a.kind != "str" {
				return dval{}
			}
			if cl.Name() == "ToLower" {
				return dval{kind: "str", s: strings.ToLower(a.s)}
			}
			return dval{kind: "str", s: strings.ToUpper(a.s)}
		}
	}
	return dval{}
}

// callTuple: the results of a module helper for this text, when every condition on the way is decided by the text.
func (d *dwalk) callTuple(call *ssa.Call) ([]dval, bool) {
	h := call.Common().StaticCallee()
	if h == nil || len(h.Blocks) == 0 || d.depth > 2 {
		return nil, false
	}
	// the helper's string parameter gets the argument's value
	var hp *ssa.Parameter
	var hv dval
	for i, p := range h.Params {
		if i < len(call.Common().Args) {
			if v := d.eval(call.Common().Args[i]); v.kind == "str" {
				if hp != nil {
					return nil, false
				}
				hp, hv = p, v
			}
		}
	}
	if hp == nil {
		return nil, false
	}
	sub := &dwalk{text: hp, w: hv.s, phi: map[*ssa.Phi]ssa.Value{}, depth: d.depth + 1}
	b := h.Blocks[0]
	var from *ssa.BasicBlock
	for steps := 0; steps < 64; steps++ {
		if from != nil {
			for _, ins := range b.Instrs {
				p, ok := ins.(*ssa.Phi)
				if !ok {
					break
				}
				for i, pr := range b.Preds {
					if pr == from {
						sub.phi[p] = p.Edges[i]
					}
				}
			}
		}
		switch t := b.Instrs[len(b.Instrs)-1].(type) {
		case *ssa.Return:
			var out []dval
			for _, r := range t.Results {
				out = append(out, sub.eval(r))
			}
			if sub.oob {
				d.oob = true
			}
			return out, true
		case *ssa.If:
			v := sub.eval(t.Cond)
			if v.kind != "bool" || sub.oob {
				if sub.oob {
					d.oob = true
				}
				return nil, false
			}
			from = b
			if v.b {
				b = b.Succs[0]
			} else {
				b = b.Succs[1]
			}
		case *ssa.Jump:
			from, b = b, b.Succs[0]
		default:
			return nil, false
		}
	}
	return nil, false
}

func (d *dwalk) index(xv, iv ssa.Value) dval {
	sv, ix := d.eval(xv), d.eval(iv)
	if sv.kind != "str" || ix.kind != "int" {
		return dval{}
	}
	if ix.i < 0 || ix.i >= int64(len(sv.s)) {
		d.oob = true
		return dval{}
	}
	return dval{kind: "int", i: int64(sv.s[ix.i])}
}

type dOutcome struct {
	radix   int64
	text    string
	known   bool
	reached bool
	panics  bool
}

// decide walks every path from the entry to the target call for the text w.
func decideAt(c *Ctx, fn *ssa.Function, text *ssa.Parameter, target *ssa.Call, w string) []dOutcome {
	var out []dOutcome
	ff := Facts(c, fn)
	var rec func(b, from *ssa.BasicBlock, phi map[*ssa.Phi]ssa.Value, onPath map[*ssa.BasicBlock]bool, depth int)
	rec = func(b, from *ssa.BasicBlock, phi map[*ssa.Phi]ssa.Value, onPath map[*ssa.BasicBlock]bool, depth int) {
		if onPath[b] || depth > 64 || len(out) > 256 {
			return
		}
		onPath[b] = true
		defer delete(onPath, b)
		// phis take the value of the edge the path came in by (all read the old values)
		np := phi
		if from != nil {
			np = map[*ssa.Phi]ssa.Value{}
			for k, v := range phi {
				np[k] = v
			}
			d0 := &dwalk{text: text, w: w, phi: phi}
			_ = d0
			for _, ins := range b.Instrs {
				p, ok := ins.(*ssa.Phi)
				if !ok {
					break
				}
				for i, pr := range b.Preds {
					if pr == from {
						e := p.Edges[i]
						// resolve through the incoming environment so that later overwrites do not matter
						if ep, isPhi := e.(*ssa.Phi); isPhi {
							if r, ok := phi[ep]; ok {
								e = r
							}
						}
						np[p] = e
					}
				}
			}
		}
		d := &dwalk{text: text, w: w, phi: np}
		for _, ins := range b.Instrs {
			if ins == ssa.Instruction(target) {
				r := d.eval(target.Common().Args[1])
				t := d.eval(target.Common().Args[0])
				o := dOutcome{reached: true}
				if r.kind == "int" && t.kind == "str" && !d.oob {
					o.known, o.radix, o.text = true, r.i, t.s
				}
				o.panics = d.oob
				out = append(out, o)
				return
			}
		}
		if iff, ok := lastIf(b); ok {
			v := d.eval(iff.Cond)
			if d.oob {
				out = append(out, dOutcome{panics: true})
				return
			}
			for i, sc := range b.Succs {
				if !ff.feasible[b][i] {
					continue
				}
				if v.kind == "bool" && v.b != (i == 0) {
					continue
				}
				rec(sc, b, np, onPath, depth+1)
			}
			return
		}
		for _, sc := range b.Succs {
			rec(sc, b, np, onPath, depth+1)
		}
	}
	if len(fn.Blocks) > 0 {
		rec(fn.Blocks[0], nil, map[*ssa.Phi]ssa.Value{}, map[*ssa.BasicBlock]bool{}, 0)
	}
	return out
}

func runIPv4Prefix(c *Ctx, s *core.Sink) {
	fn := c.P.Func("url", "parser", "parseIPv4Number")
	var target *ssa.Call
	find := func(f *ssa.Function) *ssa.Call {
		for _, b := range f.Blocks {
			for _, ins := range b.Instrs {
				if call, ok := ins.(*ssa.Call); ok {
					if cl := call.Common().StaticCallee(); cl != nil && (cl.String() == "strconv.ParseInt" || cl.String() == "strconv.ParseUint") {
						if _, isK := call.Common().Args[1].(*ssa.Const); !isK {
							return call
						}
					}
				}
			}
		}
		return nil
	}
	if fn != nil {
		target = find(fn)
	}
	if target == nil {
		// the conversion with a variable radix, wherever it lives
		for _, f := range c.P.ModFns {
			if t := find(f); t != nil {
				fn, target = f, t
				break
			}
		}
	}
	if target == nil {
		s.Unknown("ipv4prefix/anchor", "-", "no strconv.ParseInt/ParseUint with a variable radix found in the module")
		return
	}
	var text *ssa.Parameter
	for _, p := range fn.Params {
		if b, ok := p.Type().Underlying().(*types.Basic); ok && b.Kind() == types.String {
			if text != nil {
				s.Unknown("ipv4prefix/anchor", c.P.Pos(fn.Pos()), "more than one string parameter: cannot tell the text")
				return
			}
			text = p
		}
	}
	if text == nil {
		s.Unknown("ipv4prefix/anchor", c.P.Pos(fn.Pos()), "no string parameter")
		return
	}
	// the alphabet: characters of the function's string/byte constants, the prefixes of the standard, and one digit
	alpha := map[byte]bool{'0': true, 'x': true, 'X': true, '1': true}
	maxLen := 2
	for _, b := range fn.Blocks {
		for _, ins := range b.Instrs {
			for _, op := range ins.Operands(nil) {
				k, ok := (*op).(*ssa.Const)
				if !ok || k.Value == nil {
					continue
				}
				switch k.Value.Kind() {
				case constant.String:
					str := constant.StringVal(k.Value)
					if len(str) <= 4 {
						for i := 0; i < len(str); i++ {
							if str[i] < 0x80 {
								alpha[str[i]] = true
							}
						}
						if len(str) > maxLen {
							maxLen = len(str)
						}
					}
				case constant.Int:
					if n, ok := constant.Int64Val(k.Value); ok && n >= 0x20 && n < 0x7f {
						if bt, ok := k.Type().Underlying().(*types.Basic); ok && (bt.Kind() == types.Uint8 || bt.Kind() == types.Int32 || bt.Kind() == types.UntypedRune) {
							alpha[byte(n)] = true
						}
					}
				}
			}
		}
	}
	var letters []byte
	for ch := range alpha {
		letters = append(letters, ch)
	}
	sort.Slice(letters, func(i, j int) bool { return letters[i] < letters[j] })
	if len(letters) > 8 {
		letters = letters[:8]
	}
	var words []string
	var gen func(prefix string, n int)
	gen = func(prefix string, n int) {
		words = append(words, prefix)
		if n == 0 {
			return
		}
		for _, ch := range letters {
			gen(prefix+string(ch), n-1)
		}
	}
	gen("", maxLen+1)
	want := func(w string) (int64, string) {
		if len(w) >= 2 && (strings.HasPrefix(w, "0x") || strings.HasPrefix(w, "0X")) {
			return 16, w[2:]
		}
		if len(w) >= 2 && w[0] == '0' {
			return 8, w[1:]
		}
		return 10, w
	}
	bad := map[int64]string{}
	okN := map[int64]int{}
	for _, w := range words {
		if w == "" {
			continue
		}
		wr, wt := want(w)
		outs := decideAt(c, fn, text, target, w)
		reached := false
		for _, o := range outs {
			if o.panics {
				if bad[wr] == "" {
					bad[wr] = fmt.Sprintf("for a part %q an index or slice is out of range", w)
				}
				continue
			}
			if !o.reached {
				continue
			}
			reached = true
			if !o.known {
				if bad[wr] == "" {
					bad[wr] = fmt.Sprintf("for a part %q the radix or the text handed to the conversion is not decided by prefix/length tests", w)
				}
				continue
			}
			if o.radix != wr || o.text != wt {
				if bad[wr] == "" {
					bad[wr] = fmt.Sprintf("a part %q is converted as %q in radix %d, the standard converts %q in radix %d", w, o.text, o.radix, wt, wr)
				}
			}
		}
		if !reached && wt != "" {
			if bad[wr] == "" {
				bad[wr] = fmt.Sprintf("a part %q never reaches the conversion (the standard converts %q in radix %d)", w, wt, wr)
			}
		}
		if reached && wt == "" {
			// nothing left after the prefix: the standard answers 0 without converting; strconv would fail on ""
			if bad[wr] == "" {
				bad[wr] = fmt.Sprintf("a part %q (only a prefix) reaches the conversion with an empty text", w)
			}
		}
		okN[wr]++
	}
	for _, r := range []int64{16, 8, 10} {
		key := fmt.Sprintf("ipv4prefix/radix%d", r)
		if bad[r] != "" {
			s.Bad(key, c.P.Pos(target.Pos()), bad[r])
		} else {
			s.OK(key, c.P.Pos(target.Pos()), fmt.Sprintf("%d texts over %q whose standard radix is %d: same radix and same stripped text on every path to %s", okN[r], string(letters), r, target.Common().StaticCallee().Name()))
		}
	}
}
