package rules

// Per-property documentation repeated in every evidence file: what the rules decide, what they do not, what is trusted.

var commonAssumptions = []string{
	"go/types and go/ssa (golang.org/x/tools v0.29.0) represent the program faithfully; the analysed program is /repo's current working tree, default build configuration (thorough: also GOARCH=386)",
	"reviewed table /verif/tables/external.json: effects of the ~60 functions outside the module that module code calls (bitset is analysed from source)",
	"documented behaviour of bitset, strings, strconv, sort, utf8, idna, regexp, charmap",
	"user-supplied option callbacks (pre/post host functions) are pure and panic-free",
}

func init() {
	describe(&PropertyDoc{ID: "C01",
		Explanation: "Static necessary conditions of conformance to the basic URL parser, decided for all inputs and bases at once: the state machine of (*parser).BasicParser is extracted path by path from the AST (9 contexts, 3-valued conditions, rune-class refinement, handler summary) and compared with tables transcribed from the 24 May 2023 standard; constant tables are evaluated and compared as interval sets over all code points.",
		Decides: []string{
			"which components are inherited from the base, nulled or reset on every path of every state clause (SM-inherit)",
			"the set of 'return failure' points of the URL, host, opaque-host, IPv4 and IPv6 parsers, each really aborting (SM-failpoints)",
			"the transition relation: per state and class of the current code point, the set of possible outcomes (next state / stay / failure) equals the standard's table (SM-transitions)",
			"the counter values for which the number parsers and the port state reject (TAB-thresholds)",
			"percent-encode sets, ASCII classes, forbidden host/domain code points, special schemes, dot-segment literals, whitespace sets equal the standard's (TAB-*)",
			"which encode set each component writer uses (TAB-component); strconv never sees unvalidated text; exactly one bracket pair is stripped (FLOW-strconv, FLOW-brackets)",
			"the IPv6 serializer prints the standard's pieces, separators and '::' for each of the 256 zero/non-zero patterns of the pieces (TAB-ipv6ser)",
			"after reading the text the IPv6 parser fails / arranges the pieces around '::' / adds the brackets as the standard does, in each of its 45 end states (TAB-ipv6place)",
			"the Windows drive-letter quirk of the path state stands under url.scheme == file and an empty path as well as under the drive-letter test (OPT-drivequirk)"},
		NotDecided:  []string{"per-character behaviour inside a state beyond these facts", "IPv4/IPv6 arithmetic, the hex text of a piece", "path shortening details and drive-letter quirks", "IDNA mapping"},
		Assumptions: append([]string{"/verif/spec/basecopies.json, failpoints.json, sets.json are faithful transcriptions of the standard's snapshot"}, commonAssumptions...)})
	describe(&PropertyDoc{ID: "C02",
		Explanation: "Panic-freedom and termination as static obligations over every reachable construct that can panic or loop, plus the URL-or-error contract, for all inputs, configurations and histories (no rule mentions them).",
		Decides: []string{
			"main loop ranking: head advances, exits on eof, no staying path rewinds, state graph acyclic (SM-rank)",
			"base is never dereferenced when nil; url.query is non-nil wherever stored through; a parse returns a non-nil URL or a non-nil error (SM-base, SM-query, SM-result)",
			"every index/slice expression, nullable-field dereference, type assertion, loop and library call with a panicking contract is discharged by a dominating fact, an idiom, or a reviewed invariant (PF-*)",
			"a pointer or interface obtained together with an error or an ok flag is dereferenced only where the branch facts establish err == nil / ok, per incoming edge and through value/error phi pairs (PF-errnil)",
			"a reviewed index invariant that counts on obligations of another rule (the IPv6 piece index on the reading loop's thresholds) holds only while those are discharged; the lazily created parameter list is non-nil wherever a field of it is touched or a method called on it (PF-nil)"},
		NotDecided:  []string{"stack/heap exhaustion", "panics inside dependencies on valid arguments", "the hand-proved invariants of /verif/tables/index.json (listed as assumptions)"},
		Assumptions: commonAssumptions})
	describe(&PropertyDoc{ID: "C03",
		Explanation: "Structural necessary conditions of serialize-then-parse identity.",
		Decides:     []string{"no default component set leaves unencoded a code point that would end, or be trimmed from, that component on re-parsing (TAB-closure)", "every setter path that nulls query or fragment strips an opaque path's trailing spaces when both are null (PAIR-strip)", "the IPv6 serializer omits exactly the first longest run of two or more zero pieces and prints every other piece (TAB-ipv6ser)", "derived state added to the URL record (a cached serialization) is rewritten or cleared wherever a component it was computed from is written (PAIR-cache)"},
		NotDecided:  []string{"the round trip itself: the IPv4 serializer and the host parser as inverses, the '/.' guard, IDNA (http://a≠b/), setter histories"},
		Assumptions: commonAssumptions})
	describe(&PropertyDoc{ID: "C04",
		Explanation: "Structural necessary conditions of the URL-record invariants in every reachable state.",
		Decides:     []string{"default-port elision follows every store of a new port and every scheme change under an override (PAIR-port)", "the 'cannot have credentials/port' and opaque-path guards are shared by sibling setters (PAIR-guards)", "component sets and forbidden sets are at least the standard's (TAB-super, TAB-forbidden ⊇), default ports are the standard's (TAB-schemes)", "the package-level default scheme table is read only by the options initialiser: default-port elision uses the parser's own table (OPT-schemetable)", "the default-port elision decides on the port itself, or on the cached number only while every writer keeps it in step (PAIR-port decides-on); derived state follows its sources (PAIR-cache)", "the serializer only ever appends: no assembled text is trimmed, replaced or re-sliced (FLOW-serialappend)"},
		NotDecided:  []string{"getter-composition identities", "value-level invariants (scheme grammar, ASCII-only serialisation)"},
		Assumptions: commonAssumptions})
	describe(&PropertyDoc{ID: "C05",
		Explanation: "Setter footprints and guards, for every URL state and every value.",
		Decides:     []string{"the components each setter's state-override run can change are exactly the standard's, and only the setter's states run (SM-footprint)", "host and port are committed only after their validation (SM-commit)", "sibling setters share their applicability guard (PAIR-guards)", "credentials are encoded with the userinfo set (TAB-component)", "an opaque path is rewritten in place only by strings.TrimRight(segment, space) of that very segment: trailing U+0020 and nothing else (TAB-strip)", "the trailing spaces of an opaque path are stripped only where query and fragment are both null (PAIR-strip, converse clause)"},
		NotDecided:  []string{"the resulting values", "sequence-specific value behaviour (the facts hold in every URL state)"},
		Assumptions: append([]string{"/verif/spec/setters.json transcribes the API setters of the standard"}, commonAssumptions...)})
	describe(&PropertyDoc{ID: "C06",
		Explanation: "Structural facts behind the resolution laws.",
		Decides:     []string{"the three resolution routes pass identical arguments into one algorithm, on the receiver's own parser (FLOW-funnel)", "'#f' against an opaque base inherits exactly scheme, path, query and is the only accepted relative form; '?q', '#f', empty inherit exactly the listed components; a scheme-less reference always takes the base's scheme (SM-inherit / SM-failpoints rows)", "the next-state relation of the no-scheme, relative, relative-slash and special-relative-or-authority states per class of code point, incl. failure for anything but '#' against an opaque base (SM-transitions)", "every URL a resolution route hands out is the result of the one algorithm: no path bypasses it (FLOW-funnel, must-pass-through)", "Clone, from which resolution against a URL value starts, fills every field of the copy from the same field of the original and hands the copy to no function that rewrites it (EFF-clonefaithful)", "no object tied to the copy is handed to a function that rewrites the copy through it (EFF-clonefaithful)"},
		NotDecided:  []string{"that the serialization of u resolves to u (C03 plus value behaviour)"},
		Assumptions: commonAssumptions})
	describe(&PropertyDoc{ID: "C07",
		Explanation: "Structural facts of IPv4 host recognition.",
		Decides:     []string{"no sign-accepting strconv conversion sees text that was not validated against the digit set of its radix (FLOW-strconv)", "the IPv4 parser runs only for special hosts that end in a number (FLOW-ipv4)", "the radix and stripped prefix that reach the conversion equal the standard's table on every realisable valuation of the prefix/length tests (TAB-ipv4prefix)", "no integer conversion of a parsed number loses a value the parse can return (FLOW-width)", "rejection points are the standard's (SM-failpoints rows)", "more than four parts and a non-last part above 255 are exactly the counter values rejected (TAB-thresholds)", "digit tables are exact (TAB-ascii)", "the last part is rejected from 256^(5-n) on for n = 1..4 parts, and part i of the others is weighed by 256^(3-i): the expressions are folded on the SSA form per value of n and i (TAB-ipv4limit)", "a hand-written multiply-and-add accumulator with constant or variable radix is bounded inside its loop (FLOW-accum)"},
		NotDecided:  []string{"the serialisation of the 32-bit value; an assembly of the value in a form other than weight times part (Horner form)", "the ends-in-a-number decision beyond its call structure"},
		Assumptions: commonAssumptions})
	describe(&PropertyDoc{ID: "C08",
		Explanation: "Structural facts of IPv6 host acceptance, and two abstract interpretations over finite partitions: the serializer per zero / non-zero pattern of the pieces, the parser's tail per end state.",
		Decides:     []string{"exactly the first and last byte are removed from a host tested to start with '[' and end with ']' (FLOW-brackets)", "every validation error of the IPv6 parser is an aborting failure; the 13 failure points are the standard's (SM-failpoints)", "multiply-and-add accumulators of the address parser are bounded inside their loops: they cannot wrap (FLOW-accum)", "hex digit value functions are exact on 0-9, a-f, A-F (TAB-hexval)", "what the hex-piece accumulator can reach in its constant number of rounds fits the type it is narrowed to (FLOW-accum)", "the counter values for which the parser rejects - ninth piece, dotted part without two free pieces, '.' after zero digits, fifth dotted number or fewer than four, digit after a leading 0, dotted number above 255, fewer than eight pieces without '::' - are exactly the standard's (TAB-thresholds)", "the serializer uses a piece only to compare it with 0 and to format it in base 16; for each of the 256 zero/non-zero patterns its output has the standard's pieces, separators and '::' (TAB-ipv6ser, abstract interpretation)", "the part of the parser behind its last read of the text: too-few-pieces failure, placement of the pieces around '::', brackets — for each of the 45 (pieces read, place of '::') states, pieces as opaque tokens (TAB-ipv6place, abstract interpretation)", "a digit value computed in place is the digit's value on every member of the set its dominating membership test admits; a digit parsed by strconv is parsed in the radix it is scaled by (TAB-hexval)"},
		NotDecided:  []string{"the reading loop's per-character behaviour beyond its failure points", "that the hex text of a piece is minimal lower case (strconv's contract)"},
		Assumptions: append([]string{"TAB-ipv6place: at the end of the reading loop the pieces from index pieceIdx on are still zero and 0 ≤ pieceIdx ≤ 8 (reviewed; the rule itself checks that compress is only ever set to the piece count or the one 'none' constant)"}, commonAssumptions...)})
	describe(&PropertyDoc{ID: "C09",
		Explanation: "Order and coverage of the domain pipeline.",
		Decides:     []string{"percent-decoding precedes ToASCII; the forbidden-domain scan runs over the ToASCII result on every non-lax success path and before the IPv4 test (FLOW-hostpipe)", "the forbidden-domain set is at least the standard's (TAB-forbidden)", "every IDNA conversion goes through the module's lookup profile built with MapForLookup, and the wrapper's successes behind the conversion return what it produced  (FLOW-idna)", "the post-parse host hook is handed the ToASCII result and the pre-parse hook the host text as it came in (FLOW-hostpipe)", "the percent-decoder in front of ToASCII hands its whole text to no library function that rewrites text outside escapes (FLOW-decodeprov)"},
		NotDecided:  []string{"UTS #46 behaviour, case independence, the localhost rule"},
		Assumptions: commonAssumptions})
	describe(&PropertyDoc{ID: "C10",
		Explanation: "Set-level clauses decided completely; string-level codec laws are not.",
		Decides:     []string{"membership of the six named sets for all 0x110000 code points equals the standard's; byte and rune predicates agree (TAB-sets)", "default option sets are the standard's (TAB-defaults)", "deriving a set returns a fresh set and never writes its parent (EFF-derive, TAB-ctor)", "named sets and bitsets are never written after initialisation (EFF-globals)", "escapes use upper-case hex in every function that writes a '%' (TAB-hex)", "a decoder consumes as hex digits of an escape only positions a dominating hex-digit test covered (FLOW-hexpair)", "every decision 'a well-formed escape starts here' separates exactly 'three or more elements remain and both are hex digits' from everything else (FLOW-escvalid)", "the rune copy of a string is never indexed by a byte offset of that string (FLOW-units)", "in every encoder nothing reaches the result unencoded except under the set's own answer for that value; sub-encoders get the same set or a Set()-superset (FLOW-encgate)", "a percent-decoder hands its whole text only to a pure percent-decoder or to functions returning it or pieces of it (FLOW-decodeprov)", "every text-driven loop of an encoder or decoder is left only by exhaustion or an error abort (FLOW-whole)"},
		NotDecided:  []string{"string-level laws (idempotence, decode∘encode) beyond the encoder gating on the set predicate"},
		Assumptions: commonAssumptions})
	describe(&PropertyDoc{ID: "C11",
		Explanation: "Structural facts of the form-urlencoded codec and of sorting.",
		Decides:     []string{"'+' is translated before percent-decoding, for name and value (FLOW-urlenc)", "pairs split on '&', name/value at the first '=' (TAB-urlsplit)", "the serializer's escape set must contain & = + % (TAB-urlenc: known finding)", "sorting is stable and compares what the standard compares (OPT-sortcmp)", "on the serialiser's path names and values are read as code points: a byte read by index is only compared unless known to be ASCII or the string passed utf8.ValidString (FLOW-utf8)", "the decoder behind the '+' translation rewrites nothing outside escapes (FLOW-decodeprov)"},
		NotDecided:  []string{"list semantics of append/delete/set/get", "UTF-8 replacement"},
		Assumptions: commonAssumptions})
	describe(&PropertyDoc{ID: "C12",
		Explanation: "Coherence facts that hold per call, hence under every interleaving.",
		Decides:     []string{"every list mutator writes through after its last write (PAIR-update); update() stores the list's own serialization, and reaches the store whenever a URL is attached and the serialization is non-empty or the URL has a query", "functions outside the list's methods that replace the pairs of an attached list end with update() or set that URL's query themselves (PAIR-update)", "the search setter empties / re-initialises the existing list object in place; list objects of existing URLs are never replaced (PAIR-handle)", "a list stored into a URL writes through to that URL and no other (EFF-backptr)", "a field added to the list that caches something computed from the pairs is rewritten or cleared wherever the pairs are written (PAIR-cache)"},
		NotDecided:  []string{"that update()/init() compute the right strings (C11)"},
		Assumptions: commonAssumptions})
	describe(&PropertyDoc{ID: "C13",
		Explanation: "Ownership facts from interprocedural effect summaries (sound for 'no shared write', not complete).",
		Decides:     []string{"resolving never writes memory reachable from the base (EFF-read)", "results of Clone, (*Url).Parse, BasicParser reach no memory of the original/base except frozen configuration and never-written referents (EFF-result)", "a cloned list writes through to the clone (EFF-backptr)", "copy functions fill each field of the copy from the same field of the original and hand the copy to no function that rewrites it (EFF-clonefaithful)"},
		NotDecided:  []string{"that the operated-on value reflects the operations"},
		Assumptions: commonAssumptions})
	describe(&PropertyDoc{ID: "C14",
		Explanation: "Absence of shared writes and of schedule-dependent reads, for all schedules and inputs.",
		Decides:     []string{"no non-initialiser writes memory reachable from a package-level variable (EFF-globals)", "no exported entry point writes pre-existing configuration objects (EFF-config)", "the read API writes nothing reachable from its receiver/base (EFF-read); profile callbacks write nothing (EFF-pure); reachable code has no map iteration, time, randomness, goroutines, channels (EFF-determ)"},
		NotDecided:  []string{"thread-safety inside idna, regexp, charmap (documented, trusted)", "(*Url).SearchParams(): a lazily-initialising accessor of a mutable handle, excluded from the read API"},
		Assumptions: commonAssumptions})
	describe(&PropertyDoc{ID: "C15",
		Explanation: "Non-interference of the diagnostics options and error classification, decided for all inputs (complete for the non-interference clauses).",
		Decides:     []string{"the two options are read only inside the handlers (ERR-ni)", "handlers record iff reporting, return e iff failure ∨ fail-on-validation-error: 8-row truth table over the extracted decision DAG (ERR-shape)", "every non-nil handler-derived error aborts or is wrapped as a cause (ERR-callsite)", "every error reaching a parse result is a typed *ValidationError with a declared non-empty type (ERR-origin, ERR-access)", "the missing-scheme type the canonicalizer keys on has exactly one failure site (ERR-xpkg)"},
		NotDecided:  []string{"under fail-on-validation-error the returned record deliberately carries failure=false (no rule is armed against it)"},
		Assumptions: commonAssumptions})
	describe(&PropertyDoc{ID: "C16",
		Explanation: "Option wiring: which option reaches which consumer under which trigger.",
		Decides:     []string{"each With* constructor stores exactly its own field; constructors ↔ fields is a bijection (OPT-bij)", "NewParser / canonicalizer.New apply every option to a fresh object (OPT-apply)", "each option field is read only at its reviewed consumers (OPT-consumers)", "post-processing is exactly the unconditional setter call under exactly its flag (OPT-canon); default-scheme retry is guarded by missing-scheme ∧ scheme set (OPT-retry)", "profile and parser agree on parameter special cases (OPT-sibling); defaults are the standard's (TAB-defaults)", "only the options initialiser reads the package-level scheme table (OPT-schemetable)", "callback options are called through their field and the answer is used; on the arm taken only when percent-encode-single-percent-sign is on the encoder gets the component's set plus '%' (OPT-effect)", "profile.ParseRef parses the reference without the base only under rawUrl == \"\" (OPT-canonref)", "the encoder loop that implements the single-percent option cannot drop the rest of the text (FLOW-whole)"},
		NotDecided:  []string{"conservative-extension claims that need value reasoning (collapsing //., literal U+FFFD vs invalid bytes)"},
		Assumptions: commonAssumptions})
	describe(&PropertyDoc{ID: "C18",
		Explanation: "Presence, on every path, of the mechanism that normalises each listed spelling variation.",
		Decides:     []string{"with repeated decoding on, hostname, pathname, every pair name and value, and fragment are replaced by encode(decode-until-unchanged(·)) under benign guards only (FLOW-canon)", "dot-segment literals incl. %2e forms; tab/newline/whitespace sets (TAB-dots, TAB-ws)", "default-port elision (PAIR-port)", "fragment removal is the unconditional setter call under exactly its flag: an empty fragment goes too (OPT-canon)", "the repeated decoder consumes only tested hex positions, its notion of a well-formed escape and its digit values are exact (FLOW-hexpair, FLOW-escvalid, TAB-hexval)", "the repeated decoder rewrites nothing outside escapes (FLOW-decodeprov)"},
		NotDecided:  []string{"that two concrete spellings produce the same string"},
		Assumptions: commonAssumptions})
	describe(&PropertyDoc{ID: "C19",
		Explanation: "Caches cannot go stale, or do not exist, in every reachable state.",
		Decides:     []string{"port and decodedPort are always stored together; address-kind accessors derive from the host; 'present' decisions test the primary's nil-ness (PAIR-group)", "default ports are the standard's (TAB-schemes)", "the only constant DecodedPort can hand out is 0 (PAIR-group)", "the default port comes from the table of the parser that made the URL (OPT-schemetable)", "the recogniser of dotted-decimal IPv4 text rejects for exactly: not four parts, a part longer than three digits, a part above 255 (TAB-thresholds)", "IsIPv6 / the IPv4 recogniser read the host with the delimiters the serializers write (PAIR-hostshape); a self-store does not keep a cache in step (PAIR-group)"},
		NotDecided:  []string{"the rest of the textual definition of 'is a dotted-decimal IPv4 address' (digits only, no leading zero)"},
		Assumptions: commonAssumptions})
	describe(&PropertyDoc{ID: "C20",
		Explanation: "Absence of the super-linear mechanisms the anchors name - and of three more that seeded changes introduced - in module code.",
		Decides:     []string{"no string accumulated by concatenation around an input-dependent loop (COST-concat)", "no O(n) copy inside such a loop; O(remaining-input) cursor helpers only on paths that leave their state (COST-copy, SM-onevisit)", "functions that walk a URL component (path, parameter list, serialisation) are called in the state machine only on paths that leave the state (SM-onevisit)", "reporting a validation error costs O(1): the input string an error quotes is only stored and handed on between the handlers and the constructors (COST-report)"},
		NotDecided:  []string{"the overall bound (amortised re-scans after rewind, allocation volume, cost inside dependencies such as IDNA)"},
		Assumptions: commonAssumptions})
}
