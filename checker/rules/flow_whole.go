package rules

// FLOW-whole: a transducer's loop over its text ends only when the text is exhausted.
//
// The percent-encoders (functions taking a *PercentEncodeSet and returning a string) and the percent-decoders walk
// their input once and append what each element becomes. A way out of that loop other than exhaustion — a `break`, a
// `return` from the body — drops the rest of the text for the inputs that reach it. The only exits accepted besides
// the loop's own are those taken on the non-nil side of a test of an error value, or on the failing side of an ok flag a call handed back (an abort).

import (
	"fmt"
	"go/token"
	"go/types"

	"golang.org/x/tools/go/ssa"

	"wucheck/core"
)

func isErrorType(t types.Type) bool {
	n, ok := t.(*types.Named)
	return ok && n.Obj().Pkg() == nil && n.Obj().Name() == "error"
}

func init() {
	register(&Rule{
		Name:  "FLOW-whole",
		Doc:   "in every percent-encoder and percent-decoder each loop driven by the input text (a range over it or over its rune / byte copy, or a counter tested against its length) is left only by exhaustion or on the non-nil side of an error test: no break or return from the body can drop the rest of the text",
		Props: []string{"C10", "C01", "C16", "C11", "C09", "C18"},
		Floor: 3,
		Run: func(c *Ctx, s *core.Sink) {
			for _, f := range c.P.ModFns {
				if len(f.Blocks) == 0 || f.Parent() != nil {
					continue
				}
				var props []string
				switch {
				case encoderSetParam(f) != nil && textual(f.Signature.Results()):
					props = []string{"C10", "C01", "C16"}
				case f.Name() == "DecodePercentEncoded" && namedOf(recvType(f)) == "parser":
					props = []string{"C10", "C11", "C09"}
				case (f.Name() == "decodePercentEncoded" || f.Name() == "percentEncode") && core.PkgPathOf(f) == core.ModPath+"/canonicalizer":
					props = []string{"C18"}
				default:
					continue
				}
				texts := map[ssa.Value]bool{}
				for _, p := range f.Params {
					if textual(p.Type()) {
						texts[p] = true
					}
				}
				var fromText func(v ssa.Value, d int) bool
				fromText = func(v ssa.Value, d int) bool {
					if texts[v] {
						return true
					}
					if d > 8 {
						return false
					}
					switch x := v.(type) {
					case *ssa.Convert:
						return fromText(x.X, d+1)
					case *ssa.ChangeType:
						return fromText(x.X, d+1)
					case *ssa.Slice:
						return fromText(x.X, d+1)
					case *ssa.Phi:
						for _, e := range x.Edges {
							if e != v && fromText(e, d+1) {
								return true
							}
						}
					}
					return false
				}
				n := 0
				for _, l := range loopsOf(f) {
					// is the loop driven by the text?
					driven := false
					for _, ins := range l.Header.Instrs {
						switch x := ins.(type) {
						case *ssa.Next:
							if rg, ok := x.Iter.(*ssa.Range); ok && fromText(rg.X, 0) {
								driven = true
							}
						case *ssa.BinOp:
							for _, op := range []ssa.Value{x.X, x.Y} {
								if a, ok := lenArg(op); ok && fromText(a, 0) {
									driven = true
								}
							}
						}
					}
					if !driven {
						continue
					}
					n++
					key := fmt.Sprintf("whole/%s/loop#%d", core.FuncName(f), n)
					bad := ""
					var badPos token.Pos
					for b := range l.Blocks {
						for si, succ := range b.Succs {
							if l.Blocks[succ] || b == l.Header {
								continue
							}
							// an exit from the body: accepted on the non-nil side of an error test
							okExit := false
							if iff, isIf := lastIf(b); isIf {
								if bo, isBo := iff.Cond.(*ssa.BinOp); isBo && (bo.Op == token.NEQ || bo.Op == token.EQL) {
									var e ssa.Value
									if isNilConst(bo.Y) {
										e = bo.X
									} else if isNilConst(bo.X) {
										e = bo.Y
									}
									if e != nil && isErrorType(e.Type()) && (si == 0) == (bo.Op == token.NEQ) {
										okExit = true
									}
								}
							}
							// … or on the failing side of an ok flag a call handed back (`v, ok := f(x); if !ok { return … }`)
							if iff, isIf := lastIf(b); isIf && !okExit {
								cond, neg := iff.Cond, false
								if u, isU := cond.(*ssa.UnOp); isU && u.Op == token.NOT {
									cond, neg = u.X, true
								}
								if ex, isEx := cond.(*ssa.Extract); isEx {
									if _, isCall := ex.Tuple.(*ssa.Call); isCall {
										if bt, isB := ex.Type().Underlying().(*types.Basic); isB && bt.Kind() == types.Bool && (si == 0) == neg {
											okExit = true
										}
									}
								}
							}
							if !okExit && bad == "" {
								bad = "the loop over the text is left from its body before the text is exhausted (a break or return that is not the abort of an error): what follows in the text is dropped"
								badPos = b.Instrs[len(b.Instrs)-1].Pos()
								if badPos == token.NoPos {
									badPos = l.Header.Instrs[0].Pos()
								}
							}
						}
					}
					pos := c.P.Pos(f.Pos())
					if badPos != token.NoPos {
						pos = c.P.Pos(badPos)
					}
					s.Check(bad == "", key, pos, "left only by exhaustion of the text (or the abort of an error)", bad, props...)
				}
			}
		},
	})
}
