// wucheck decides structural clauses of the whatwg-url properties by static analysis of /repo's current source.
package main

import (
	"encoding/json"
	"flag"
	"fmt"
	"os"
	"path/filepath"
	"sort"
	"strconv"
	"strings"
	"time"

	"wucheck/core"
	"wucheck/rules"
)

func main() {
	prop := flag.String("prop", "", "property id (C01..C20), or 'all'")
	tier := flag.String("tier", "quick", "quick | thorough")
	repo := flag.String("repo", "/repo", "repository to analyse")
	verif := flag.String("verif", "/verif", "verification directory (spec/, tables/, known_findings.json)")
	out := flag.String("out", "", "evidence directory (default <verif>/evidence)")
	goarch := flag.String("goarch", "", "GOARCH to load the program under (default: host)")
	list := flag.Bool("list", false, "list rules and exit")
	dump := flag.Bool("dump", false, "print every obligation")
	only := flag.String("rule", "", "run only this rule (diagnostic; no evidence written)")
	explain := flag.String("explain", "", "print a violations file and exit")
	debug := flag.String("debug", "", "print engine internals (eff|sm) and exit")
	genNames := flag.Bool("gen-names", false, "write the reference inventory of unexported names (spec/names.json) from -repo and exit")
	noNorm := flag.Bool("no-align", false, "do not align identifier names with spec/names.json")
	embed := flag.String("embed", "", "key:file[,key:file…] - embed JSON files into the evidence under coverage.<key> (informational)")
	also := flag.String("also", "", "label:exitcode:logfile of a run of the same check under another build configuration; verdicts must agree")
	flag.Parse()

	if *explain != "" {
		b, err := os.ReadFile(*explain)
		if err != nil {
			fmt.Fprintln(os.Stderr, err)
			os.Exit(2)
		}
		os.Stdout.Write(b)
		return
	}
	if *list {
		for _, r := range rules.All() {
			fmt.Printf("%-18s %-40v floor=%d  %s\n", r.Name, r.Props, r.Floor, r.Doc)
		}
		return
	}
	if *out == "" {
		*out = filepath.Join(*verif, "evidence")
	}
	if env := os.Getenv("VERIF_TIER"); env != "" && !isFlagSet("tier") {
		*tier = env
	}
	seed, _ := strconv.Atoi(os.Getenv("VERIF_SEED"))

	start := time.Now()
	abs, _ := filepath.Abs(*repo)
	if *genNames {
		if err := core.GenNames(abs, filepath.Join(*verif, "spec", "names.json")); err != nil {
			fmt.Fprintf(os.Stderr, "wucheck: %v\n", err)
			os.Exit(2)
		}
		return
	}
	// align the names of unexported entities with the reference inventory (core/canon.go): when some differ, an
	// alpha-renamed scratch copy of the current tree is analysed instead (same lines, same semantics)
	analysed := abs
	var renamings []core.Renaming
	if !*noNorm {
		dir, rn, nerr := core.Normalise(abs, *verif)
		if nerr != nil {
			fmt.Fprintf(os.Stderr, "wucheck: name alignment failed (%v): analysing the tree as it is\n", nerr)
		} else if dir != abs {
			analysed, renamings = dir, rn
			defer os.RemoveAll(dir)
		}
	}
	core.KnownFuncs = knownFuncs(*verif)
	p, err := core.Load(analysed, *goarch)
	if err != nil && analysed != abs {
		// the renamed copy does not build (an identifier the alignment could not rename consistently): fall back
		fmt.Fprintf(os.Stderr, "wucheck: the name-aligned copy does not load (%v): analysing the tree as it is\n", err)
		os.RemoveAll(analysed)
		analysed, renamings = abs, nil
		p, err = core.Load(abs, *goarch)
	}
	if len(renamings) > 0 {
		fmt.Printf("note: %d identifiers of the current source are known to the rules under their reference names (e.g. %s %s is %s); reports use the reference names\n", len(renamings), renamings[0].What, renamings[0].From, renamings[0].To)
	}
	if err != nil {
		fmt.Fprintf(os.Stderr, "wucheck: cannot analyse %s: %v\n", abs, err)
		failAll(*prop, *tier, seed, *out, err, start)
		os.Exit(1)
	}
	findings, ferr := core.LoadFindings(filepath.Join(*verif, "known_findings.json"))
	if ferr != nil {
		fmt.Fprintf(os.Stderr, "wucheck: known_findings.json: %v\n", ferr)
		os.Exit(2)
	}
	ctx := rules.NewCtx(p, *tier, *verif)
	if *debug != "" {
		rules.Debug(ctx, *debug)
		return
	}

	var props []string
	if *prop == "all" || *prop == "" {
		props = rules.Properties()
	} else {
		props = strings.Split(*prop, ",")
	}
	cache := map[string][]core.Obligation{}
	internal := map[string]string{}
	exit := 0
	for _, id := range props {
		t0 := time.Now()
		rs := rules.For(id)
		if *only != "" {
			var f []*rules.Rule
			for _, r := range rs {
				if r.Name == *only {
					f = append(f, r)
				}
			}
			rs = f
		}
		if len(rs) == 0 {
			fmt.Fprintf(os.Stderr, "wucheck: no rules for property %s\n", id)
			os.Exit(2)
		}
		res := &core.Result{Property: id, Tier: *tier, Seed: seed, Stats: map[string]int{}, Extra: map[string]interface{}{}}
		for _, r := range rs {
			obs, ok := cache[r.Name]
			if !ok {
				var in string
				obs, in = rules.RunRule(ctx, r)
				cache[r.Name] = obs
				internal[r.Name] = in
			}
			if in := internal[r.Name]; in != "" {
				res.Internal = append(res.Internal, in)
			}
			if len(obs) < r.Floor {
				res.Internal = append(res.Internal, fmt.Sprintf("rule %s found %d instances, below its floor of %d (anchors moved or rule matches vacuously)", r.Name, len(obs), r.Floor))
			}
			ri := core.RuleInfo{Name: r.Name, Doc: r.Doc, Floor: r.Floor}
			for _, o := range obs {
				if !o.Serves(id) {
					continue
				}
				res.Obs = append(res.Obs, o)
				ri.Instances++
				if o.Verdict == core.Discharged {
					ri.Discharged++
				}
			}
			if pf, ok := r.PropFloor[id]; ok {
				ri.Floor = pf
				if ri.Instances < pf {
					res.Internal = append(res.Internal, fmt.Sprintf("rule %s found %d instances for %s, below its floor of %d", r.Name, ri.Instances, id, pf))
				}
			}
			res.Rules = append(res.Rules, ri)
		}
		for k, v := range p.Stats {
			res.Stats[k] = v
		}
		if d := rules.Doc(id); d != nil {
			res.Explanation, res.Decides, res.NotDecided, res.Assumptions = d.Explanation, d.Decides, d.NotDecided, d.Assumptions
		}
		if res.Explanation == "" {
			res.Explanation = "static obligations discharged by repository-specific rules"
		}
		res.Classify(findings)
		if len(renamings) > 0 {
			var rl []string
			for _, r := range renamings {
				rl = append(rl, r.What+": "+r.From+" → "+r.To)
			}
			res.Extra["name_alignment"] = map[string]interface{}{
				"what":       "identifiers of the analysed source that the rules know under the names of the reference inventory (spec/names.json); the analysis ran on an alpha-renamed copy of the current tree (same lines, same semantics) and reports use the reference names",
				"renamings":  rl,
				"unmatched_": "reference entities without a counterpart keep no alias: rules that need them report an unresolved anchor",
			}
		}
		for _, one := range strings.Split(*embed, ",") {
			if parts := strings.SplitN(one, ":", 2); len(parts) == 2 {
				if b, err := os.ReadFile(parts[1]); err == nil {
					var v interface{}
					if json.Unmarshal(b, &v) == nil {
						res.Extra[parts[0]] = v
					}
				}
			}
		}
		alsoRC := -1
		if *also != "" {
			parts := strings.SplitN(*also, ":", 3)
			if len(parts) == 3 {
				alsoRC, _ = strconv.Atoi(parts[1])
				logb, _ := os.ReadFile(parts[2])
				lines := strings.Split(strings.TrimSpace(string(logb)), "\n")
				if len(lines) > 12 {
					lines = lines[:12]
				}
				res.Extra["configuration_"+parts[0]] = map[string]interface{}{"exit": alsoRC, "summary": lines}
			}
		}
		res.WallS = time.Since(start).Seconds()
		_ = t0
		if *dump {
			obs := append([]core.Obligation(nil), res.Obs...)
			sort.SliceStable(obs, func(i, j int) bool { return obs[i].Rule < obs[j].Rule })
			for _, o := range obs {
				fmt.Printf("%-10s %-16s %-70s %-28s %s\n", o.Verdict, o.Rule, o.Construct, o.Pos, o.Fact)
			}
		}
		fmt.Print(res.Summary())
		for _, k := range res.Known {
			fmt.Println(k)
		}
		if *only == "" {
			if err := res.WriteEvidence(*out); err != nil {
				fmt.Fprintf(os.Stderr, "wucheck: write evidence: %v\n", err)
				os.Exit(2)
			}
		}
		if alsoRC >= 0 {
			own := 0
			if len(res.Violations) > 0 || len(res.Internal) > 0 {
				own = 1
			}
			if alsoRC != own {
				res.Internal = append(res.Internal, fmt.Sprintf("verdict differs between build configurations: host exit %d, %s", own, *also))
				_ = res.WriteEvidence(*out)
			}
		}
		if len(res.Violations) > 0 || len(res.Internal) > 0 {
			path, _ := res.WriteViolations(*out)
			fmt.Printf("VIOLATION property=%s replay=%s\n", id, path)
			exit = 1
		} else {
			os.Remove(filepath.Join(*out, "violations", id+".json"))
		}
	}
	os.Exit(exit)
}

func isFlagSet(name string) bool {
	set := false
	flag.Visit(func(f *flag.Flag) {
		if f.Name == name {
			set = true
		}
	})
	return set
}

// failAll writes failing evidence when the program cannot even be loaded (type error, missing package).
func failAll(prop, tier string, seed int, out string, err error, start time.Time) {
	props := strings.Split(prop, ",")
	if prop == "" || prop == "all" {
		props = rules.Properties()
	}
	for _, id := range props {
		res := &core.Result{Property: id, Tier: tier, Seed: seed, Stats: map[string]int{}, Extra: map[string]interface{}{}}
		res.Internal = []string{"cannot load/type-check the repository: " + err.Error()}
		res.Explanation = "the repository could not be loaded; nothing was analysed"
		res.WallS = time.Since(start).Seconds()
		_ = res.WriteEvidence(out)
		path, _ := res.WriteViolations(out)
		fmt.Printf("VIOLATION property=%s replay=%s\n", id, path)
	}
}

// knownFuncs: the functions of the reference inventory, as "pkg.Owner.name".
func knownFuncs(verif string) map[string]bool {
	out := map[string]bool{}
	b, err := os.ReadFile(filepath.Join(verif, "spec", "names.json"))
	if err != nil {
		return out
	}
	var inv struct {
		Entities []struct {
			Kind, Pkg, Owner, Name string
		} `json:"entities"`
	}
	if json.Unmarshal(b, &inv) != nil {
		return out
	}
	for _, e := range inv.Entities {
		if e.Kind == "func" {
			out[e.Pkg+"."+e.Owner+"."+e.Name] = true
		}
	}
	return out
}
