#!/usr/bin/env python3
"""Mechanical mutation campaign (not a registered check; measures what the rules see that the suite does not).
 stage 1: every one-line mutant of the non-test sources of /repo (operator flips, true/false, dropped '!', constant+1,
          deleted simple assignments / calls) is built and run against the repository's own suite on a scratch copy;
 stage 2: the checker (all properties) runs on every survivor; the rules that fire are recorded.
usage: mutcampaign.py [-j N] [--stage 1|2|all] [--out /verif/mutation/results.json]
Scratch copies live under /tmp/wu-mut and are removed one by one."""
import os, re, shutil, subprocess, sys, json, glob
from concurrent.futures import ThreadPoolExecutor
import argparse, tempfile
env=dict(os.environ, GOFLAGS='-mod=mod', GOPROXY='off', GOSUMDB='off', GOTOOLCHAIN='local', GOWORK='off')
VERIF=os.path.dirname(os.path.dirname(os.path.abspath(__file__)))
ap=argparse.ArgumentParser(); ap.add_argument('-j',type=int,default=14); ap.add_argument('--stage',default='all'); ap.add_argument('--out',default=os.path.join(VERIF,'mutation','results.json')); ap.add_argument('--limit',type=int,default=0); ap.add_argument('--ops',default='A',help='A: the operators of the first campaigns; B: second operator set (int-1, +/-, </> swap, rune and string literals, continue/break, base<->url, slice bounds); C: whole if-blocks and else-branches deleted')
args=ap.parse_args()
files=[f for d in ('url','canonicalizer','errors') for f in sorted(glob.glob(f'/repo/{d}/*.go')) if not f.endswith('_test.go')]
muts=[]
def strip_strings(line):
    # mask string/rune literals so operators inside are not mutated
    out=[];i=0;n=len(line);mask=[]
    q=None
    res=list(line)
    while i<n:
        c=line[i]
        if q:
            if c=='\\' and q!='`': res[i]='_'; 
            if c=='\\' and q!='`' and i+1<n: res[i+1]='_'; i+=2; continue
            if c==q: q=None
            else: res[i]='_'
        else:
            if c in '"\'`': q=c
            elif line[i:i+2]=='//': 
                for j in range(i,n): res[j]='_'
                break
        i+=1
    return ''.join(res)
OPS=[('==','!='),('!=','=='),('<=','<'),('>=','>'),('&&','||'),('||','&&')]
SETB=args.ops=='B'
SETC=args.ops=='C'
if SETB or SETC: OPS=[]
spans={}
W='/tmp/wu-mut'+args.ops
for f in files:
    lines=open(f).read().split('\n')
    inimport=False; incomment=False
    for ln,line in enumerate(lines):
        s=line.strip()
        if s.startswith('/*'): incomment=True
        if incomment:
            if '*/' in s: incomment=False
            continue
        if s.startswith('import ('): inimport=True
        if inimport:
            if s==')': inimport=False
            continue
        if not s or s.startswith('//') or s.startswith('package') or s.startswith('import'): continue
        masked=strip_strings(line)
        if SETC:
            m=re.match(r'^(\t+)if .*\{$',line)
            if m and not re.match(r'^\t+if .*:=',line):
                ind=m.group(1)
                for e in range(ln+1,min(ln+60,len(lines))):
                    if lines[e]==ind+'}':
                        spans[len(muts)]=e; muts.append((f,ln,'delete-if-block',ind+'_ = 0')); break
                    if lines[e].startswith(ind+'} else'):
                        break
                    if not lines[e].startswith(ind) and lines[e].strip(): break
            m=re.match(r'^(\t+)\} else \{$',line)
            if m:
                ind=m.group(1)
                for e in range(ln+1,min(ln+60,len(lines))):
                    if lines[e]==ind+'}':
                        spans[len(muts)]=e-1; muts.append((f,ln,'delete-else',ind+'} else {')); break
                    if not lines[e].startswith(ind) and lines[e].strip(): break
            continue
        def add(newline,kind):
            muts.append((f,ln,kind,newline))
        for a,b in OPS:
            for mth in re.finditer(re.escape(a),masked):
                i=mth.start()
                add(line[:i]+b+line[i+len(a):], f'{a}->{b}')
        if SETB:
            for mth in re.finditer(r'(?<![<\-=!>:+])<(?![=<\-])',masked):
                i=mth.start(); add(line[:i]+'>'+line[i+1:],'<->>')
            for mth in re.finditer(r'(?<![>\-=!<])>(?![=>])',masked):
                i=mth.start(); add(line[:i]+'<'+line[i+1:],'>-><')
            for mth in re.finditer(r'(?<![\w.])(\d+)(?![\w.])',masked):
                v=int(mth.group()); i,j=mth.span()
                if 0<v<=65535: add(line[:i]+str(v-1)+line[j:],'int-1')
            for mth in re.finditer(r'\b0x[0-9a-fA-F]+\b',masked):
                v=int(mth.group(),16); i,j=mth.span()
                if v>0: add(line[:i]+hex(v-1)+line[j:],'hex-1')
            for mth in re.finditer(r' \+ ',masked):
                i=mth.start(); add(line[:i]+' - '+line[i+3:],'+->-')
            for mth in re.finditer(r' - ',masked):
                i=mth.start(); add(line[:i]+' + '+line[i+3:],'-->+')
            for mth in re.finditer(r"'(_|[^'_])'",masked):
                i,j=mth.span(); lit=line[i:j]
                if len(lit)==3 and 0x20<ord(lit[1])<0x7e and lit[1] not in "\\'": add(line[:i]+"'"+chr(ord(lit[1])+1).replace("'",'(').replace('\\',']')+"'"+line[j:],'rune+1')
            for mth in re.finditer(r'"_+"',masked):
                i,j=mth.span(); add(line[:j-1]+'x'+line[j-1:],'string+x')
            for mth in re.finditer(r'\bcontinue\b',masked):
                i,j=mth.span(); add(line[:i]+'break'+line[j:],'continue->break')
            for mth in re.finditer(r'\bbase\.',masked):
                i,j=mth.span(); add(line[:i]+'url.'+line[j:],'base->url')
            for mth in re.finditer(r'\[(\w+):\]',masked):
                i,j=mth.span(); add(line[:i]+'['+mth.group(1)+'+1:]'+line[j:],'lo+1')
            for mth in re.finditer(r'\[:(\w+)\]',masked):
                i,j=mth.span(); add(line[:i]+'[:'+mth.group(1)+'-1]'+line[j:],'hi-1')
            for mth in re.finditer(r'\+\+',masked):
                pass
            continue
        for mth in re.finditer(r'(?<![<\-=!>:+])<(?![=<\-])',masked):
            i=mth.start(); add(line[:i]+'<='+line[i+1:],'<-><=')
        for mth in re.finditer(r'(?<![>\-=!<])>(?![=>])',masked):
            i=mth.start(); add(line[:i]+'>='+line[i+1:],'>->>=')
        for mth in re.finditer(r'\btrue\b',masked):
            i=mth.start(); add(line[:i]+'false'+line[i+4:],'true->false')
        for mth in re.finditer(r'\bfalse\b',masked):
            i=mth.start(); add(line[:i]+'true'+line[i+5:],'false->true')
        for mth in re.finditer(r'!(?=[A-Za-z_(])',masked):
            i=mth.start(); add(line[:i]+line[i+1:],'drop !')
        for mth in re.finditer(r'\b0x[0-9a-fA-F]+\b',masked):
            v=int(mth.group(),16); i,j=mth.span(); add(line[:i]+hex(v+1)+line[j:],'hex+1')
        for mth in re.finditer(r'(?<![\w.])(\d+)(?![\w.])',masked):
            v=int(mth.group()); i,j=mth.span()
            if v<=65535: add(line[:i]+str(v+1)+line[j:],'int+1')
        # delete simple statement
        if re.match(r'^\s*[\w\.\[\]\*\(\)\-\+ ]+\s*(=|\+=|-=)\s*[^=].*$',masked) and ':=' not in masked and not s.endswith('{') and not s.endswith(',') and 'return' not in s and not re.match(r'^\s*(var|const|type|case|if|for|else|func)\b', masked) and line.startswith('\t'):
            add(re.match(r'^\s*',line).group()+'_ = 0', 'delete-assign')
        elif re.match(r'^\s*[\w\.]+\(.*\)$',masked) and line.startswith('\t') and not re.match(r'^\s*(if|for|func|switch|return|defer|go)\b',masked):
            add(re.match(r'^\s*',line).group()+'_ = 0', 'delete-call')
print('mutants',len(muts),file=sys.stderr)

def copy(k):
    f,ln,kind,newline=muts[k]
    d=f'{W}/a{k}'
    shutil.rmtree(d, ignore_errors=True)
    shutil.copytree('/repo', d, ignore=shutil.ignore_patterns('.git'))
    rel=os.path.relpath(f,'/repo'); p=os.path.join(d,rel)
    lines=open(p).read().split('\n'); old=lines[ln]; lines[ln]=newline
    if k in spans: del lines[ln+1:spans[k]+1]
    open(p,'w').write('\n'.join(lines))
    return d,rel,old

def stage1(k):
    f,ln,kind,newline=muts[k]
    d,rel,old=copy(k)
    r='?'
    try:
        b=subprocess.run(['go','build','./...'],cwd=d,env=env,capture_output=True,text=True,errors='replace',timeout=300)
        if b.returncode!=0: r='NOBUILD'
        else:
            t=subprocess.run(['go','test','-vet=off','-count=1','-timeout','60s','./...'],cwd=d,env=env,capture_output=True,text=True,errors='replace',timeout=400)
            r='SURVIVED' if t.returncode==0 else 'killed'
    except subprocess.TimeoutExpired:
        r='killed'
    finally:
        shutil.rmtree(d, ignore_errors=True)
    return dict(k=k,file=rel,line=ln+1,kind=kind,old=old.strip(),new=newline.strip(),result=r)

def stage2(rec):
    k=rec['k']
    f,ln,kind,newline=muts[k]
    if os.path.relpath(f,'/repo')!=rec['file'] or ln+1!=rec['line'] or newline.strip()!=rec['new']:
        rec['fired']=None; return rec
    d,rel,old=copy(k)
    ev=tempfile.mkdtemp(prefix='wu-mut-ev-')
    try:
        r=subprocess.run([os.environ.get('WUCHECK',os.path.join(VERIF,'bin','wucheck')),'-prop','all','-repo',d,'-verif',VERIF,'-out',ev],cwd=VERIF,env=env,capture_output=True,text=True,errors='replace',timeout=900)
        out=r.stdout+r.stderr
        fired=[];cur=None
        for line in out.splitlines():
            m=re.match(r'property (C\d+) ',line)
            if m: cur=m.group(1)
            m=re.match(r'\s+(VIOLATED|UNDECIDED) (\S+): (\S+)',line)
            if m: fired.append([cur,m.group(2),m.group(3)])
            if line.strip().startswith('INTERNAL'): fired.append([cur,'INTERNAL',line.strip()[:120]])
        rec['fired']=sorted({(a,b) for a,b,c in fired})
    except subprocess.TimeoutExpired:
        rec['fired']=[['?','TIMEOUT']]
    finally:
        shutil.rmtree(d, ignore_errors=True); shutil.rmtree(ev, ignore_errors=True)
    return rec

os.makedirs(W,exist_ok=True)
if args.limit: muts=muts[:args.limit]
if args.stage in ('1','all'):
    with ThreadPoolExecutor(args.j) as ex:
        res=list(ex.map(stage1,range(len(muts))))
    json.dump(res,open(args.out,'w'),indent=1)
else:
    res=json.load(open(args.out))
from collections import Counter
print(Counter(r['result'] for r in res))
if args.stage in ('2','all'):
    surv=[r for r in res if r['result']=='SURVIVED']
    with ThreadPoolExecutor(max(1,args.j//2)) as ex:
        done=list(ex.map(stage2,surv))
    json.dump(res,open(args.out,'w'),indent=1)
    print('survivors',len(surv),'reported by a rule',sum(1 for r in surv if r.get('fired')),'silent',sum(1 for r in surv if r.get('fired')==[]))
shutil.rmtree(W,ignore_errors=True)
