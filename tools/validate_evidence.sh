#!/bin/sh
# validates every evidence file against the schema (development aid)
python3-vt - <<'PY'
import json, glob, jsonschema
sch = json.load(open('/root/.vp/EVIDENCE.schema.json'))
for f in sorted(glob.glob('/verif/evidence/*.json')):
    jsonschema.validate(json.load(open(f)), sch)
    print('valid', f)
PY
