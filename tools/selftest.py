#!/usr/bin/env python3
"""Liveness self-test of the rules: applies one-instance textual mutations to scratch copies of /repo (outside /repo
and /verif), checks that each still compiles, and that wucheck reports exactly the expected rule instance.
Informational only: never part of a check's exit code.  Usage: selftest.py [-k substring] [--tests] [-j N]"""
import json, os, subprocess, sys, shutil, tempfile, concurrent.futures, argparse, re

VERIF = os.path.dirname(os.path.dirname(os.path.abspath(__file__)))
ENV = dict(os.environ, GOFLAGS="-mod=mod", GOPROXY="off", GOSUMDB="off", GOTOOLCHAIN="local", GOWORK="off")

def run_one(m, args):
    d = tempfile.mkdtemp(prefix="wu-selftest-")
    try:
        subprocess.run(["rsync", "-a", "--exclude", ".git", "/repo/", d + "/"], check=True)
        for ed in m["edits"]:
            p = os.path.join(d, ed["file"])
            s = open(p).read()
            n = s.count(ed["old"])
            if n != ed.get("count", 1):
                return m["id"], "STALE", "pattern occurs %d times in %s" % (n, ed["file"]), []
            s = s.replace(ed["old"], ed["new"])
            open(p, "w").write(s)
        b = subprocess.run(["go", "build", "./..."], cwd=d, env=ENV, capture_output=True, text=True)
        if b.returncode != 0:
            return m["id"], "NOBUILD", b.stderr[:300], []
        tests = ""
        if args.tests:
            t = subprocess.run(["go", "test", "-vet=off", "-count=1", "./..."], cwd=d, env=ENV, capture_output=True, text=True)
            tests = "tests:" + ("pass" if t.returncode == 0 else "FAIL")
        props = m.get("props", "all")
        out = tempfile.mkdtemp(prefix="wu-selftest-ev-")
        r = subprocess.run([os.environ.get("WUCHECK", os.path.join(VERIF, "bin", "wucheck")), "-prop", props, "-repo", d, "-verif", VERIF, "-out", out], env=ENV, capture_output=True, text=True)
        shutil.rmtree(out, ignore_errors=True)
        viol = []
        cur = None
        for line in r.stdout.splitlines():
            mm = re.match(r"property (C\d+) ", line)
            if mm:
                cur = mm.group(1)
            mm = re.match(r"\s+(VIOLATED|UNDECIDED) (\S+): (\S+)", line)
            if mm:
                viol.append((cur, mm.group(2), mm.group(3)))
            if line.strip().startswith("INTERNAL"):
                viol.append((cur, "INTERNAL", line.strip()[:200]))
        exp = m.get("expect", [])
        missing = []
        for e in exp:
            if not any(v[0] == e["prop"] and v[1] == e["rule"] and e.get("construct", "") in v[2] for v in viol):
                missing.append(e)
        unexpected_props = sorted({v[0] for v in viol} - {e["prop"] for e in exp} - set(m.get("also_ok", [])))
        status = "OK"
        if missing:
            status = "MISSED"
        elif exp == [] and viol:
            status = "FALSE-ALARM"
        elif unexpected_props:
            status = "OK+EXTRA"
        return m["id"], status, "%s missing=%s extra_props=%s" % (tests, missing, unexpected_props), viol
    finally:
        shutil.rmtree(d, ignore_errors=True)

def main():
    ap = argparse.ArgumentParser()
    ap.add_argument("-k", default="")
    ap.add_argument("--tests", action="store_true")
    ap.add_argument("-j", type=int, default=8)
    ap.add_argument("-v", action="store_true")
    ap.add_argument("--prop", default="", help="only mutants that expect a report for this property")
    ap.add_argument("--json", default="", help="write a machine-readable summary here")
    args = ap.parse_args()
    muts = []
    for fn in sorted(os.listdir(os.path.join(VERIF, "selftest"))):
        if fn.endswith(".json"):
            muts += json.load(open(os.path.join(VERIF, "selftest", fn)))["mutants"]
    muts = [m for m in muts if args.k in m["id"]]
    if args.prop:
        muts = [m for m in muts if any(e["prop"] == args.prop for e in m.get("expect", []))]
    bad = 0
    summary = []
    with concurrent.futures.ThreadPoolExecutor(args.j) as ex:
        for mid, status, info, viol in ex.map(lambda m: run_one(m, args), muts):
            print("%-12s %-44s %s" % (status, mid, info))
            summary.append({"mutant": mid, "status": status, "reports": ["%s:%s:%s" % tuple(v) for v in viol if not args.prop or v[0] == args.prop][:6]})
            if args.v or status not in ("OK",):
                for v in viol[:12]:
                    print("      ", v)
            if status not in ("OK", "OK+EXTRA"):
                bad += 1
    print("%d mutants, %d not as expected" % (len(muts), bad))
    if args.json:
        json.dump({"mutants": len(muts), "alive": sum(1 for x in summary if x["status"] in ("OK", "OK+EXTRA")), "not_as_expected": bad, "results": summary,
                   "note": "liveness self-test: one-instance mutations of the current tree on scratch copies; informational, never part of the exit code"}, open(args.json, "w"), indent=1)

main()
