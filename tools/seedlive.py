#!/usr/bin/env python3
"""Liveness of the checks of one property against the seeded property-breaking changes kept for it (informational):
applies each /verif/seeded/<id>/patch.diff whose property is the given one to a scratch copy of /repo (outside /repo
and /verif, removed afterwards), runs the checker for that property and records whether it fires.
usage: seedlive.py --prop Cxx --json out.json [-j N]"""
import argparse, json, os, re, shutil, subprocess, tempfile, concurrent.futures
VERIF = os.path.dirname(os.path.dirname(os.path.abspath(__file__)))
ENV = dict(os.environ, GOFLAGS="-mod=mod", GOPROXY="off", GOSUMDB="off", GOTOOLCHAIN="local", GOWORK="off")

def one(sid, prop):
    d = tempfile.mkdtemp(prefix="wu-seedlive-")
    ev = tempfile.mkdtemp(prefix="wu-seedlive-ev-")
    try:
        subprocess.run(["rsync", "-a", "--exclude", ".git", "/repo/", d + "/"], check=True)
        patch = os.path.join(VERIF, "seeded", sid, "patch.diff")
        r = subprocess.run(["git", "apply", "--unsafe-paths", "--directory=" + d, patch], cwd="/", capture_output=True, text=True)
        if r.returncode != 0:
            return {"seed": sid, "status": "patch does not apply to this tree"}
        b = subprocess.run(["go", "build", "./..."], cwd=d, env=ENV, capture_output=True, text=True)
        if b.returncode != 0:
            return {"seed": sid, "status": "does not build on this tree"}
        w = subprocess.run([os.environ.get("WUCHECK", os.path.join(VERIF, "bin", "wucheck")), "-prop", prop, "-repo", d, "-verif", VERIF, "-out", ev], env=ENV, capture_output=True, text=True)
        fired = sorted(set(m.group(1) for m in re.finditer(r"^\s+(?:VIOLATED|UNDECIDED) (\S+):", w.stdout, re.M)))
        return {"seed": sid, "status": "reported" if fired else "not reported", "rules": fired}
    finally:
        shutil.rmtree(d, ignore_errors=True)
        shutil.rmtree(ev, ignore_errors=True)

def main():
    ap = argparse.ArgumentParser()
    ap.add_argument("--prop", required=True)
    ap.add_argument("--json", required=True)
    ap.add_argument("-j", type=int, default=4)
    a = ap.parse_args()
    seeds = []
    root = os.path.join(VERIF, "seeded")
    for sid in sorted(os.listdir(root)):
        mp = os.path.join(root, sid, "meta.json")
        if os.path.exists(mp) and json.load(open(mp)).get("property_broken") == a.prop:
            seeds.append(sid)
    with concurrent.futures.ThreadPoolExecutor(a.j) as ex:
        res = list(ex.map(lambda s: one(s, a.prop), seeds))
    out = {"what": "seeded changes that break this property (written by independent sub-agents; each passes the unedited test suite); 'reported' = the check of this property fires on the changed tree",
           "seeds": res, "reported": sum(1 for r in res if r["status"] == "reported"), "total": len(res)}
    json.dump(out, open(a.json, "w"), indent=1)
    print("%d/%d seeded changes reported for %s" % (out["reported"], out["total"], a.prop))

if __name__ == "__main__":
    main()
