#!/usr/bin/env python3
"""Re-runs every seeded change under /verif/seeded against the current checker, rewrites result.json / meta.json and
prints the catch table (also written to seeded/INDEX.md)."""
import json, os, subprocess, sys, concurrent.futures
VERIF = os.path.dirname(os.path.dirname(os.path.abspath(__file__)))
DESC = json.load(open(os.path.join(VERIF, "seeded", "descriptions.json")))

def one(sid):
    d = os.path.join(VERIF, "seeded", sid)
    r = subprocess.run([sys.executable, os.path.join(VERIF, "tools", "seedcheck.py"), d, sid], capture_output=True, text=True)
    try:
        res = json.loads(r.stdout)
    except Exception:
        res = {"seed": sid, "error": r.stdout[-400:] + r.stderr[-400:]}
    json.dump(res, open(os.path.join(d, "result.json"), "w"), indent=1)
    info = DESC.get(sid, {})
    fired = res.get("checks_fired", [])
    meta = {
        "seed": sid,
        "property_broken": info.get("property", sid.split("-")[0]),
        "change": info.get("change", ""),
        "needs_to_manifest": info.get("needs", ""),
        "origin": "independent sub-agent given only the property text and a scratch worktree of /repo",
        "confirmed": {k: res.get(k) for k in ["builds", "suite_with_change", "demo_with_change", "demo_without_change", "confirmed"]},
        "what_was_run": [
            "rsync /repo to a scratch dir outside /repo and /verif; git apply patch.diff; go build ./...; go test -vet=off -count=1 ./...  (suite must pass)",
            "demo_test.go copied into the package dir named on its first line; go test -run Demo with and without the patch (must fail / pass)",
            "bin/wucheck -prop all -repo <scratch>  (static checks against the changed tree)",
        ],
        "caught_by": sorted({"%s:%s" % (v[0], v[1]) for v in fired}),
        "caught_for_the_seeded_property": any(v[0] == info.get("property", sid.split("-")[0]) for v in fired),
        "verdict": info.get("verdict", ""),
    }
    json.dump(meta, open(os.path.join(d, "meta.json"), "w"), indent=1)
    return meta

def main():
    sids = sorted(x for x in os.listdir(os.path.join(VERIF, "seeded")) if os.path.isdir(os.path.join(VERIF, "seeded", x)))
    with concurrent.futures.ThreadPoolExecutor(8) as ex:
        metas = list(ex.map(one, sids))
    lines = ["# Seeded changes (independent sub-agents) and which checks catch them", "",
             "| seed | property | change | caught by | note |", "|---|---|---|---|---|"]
    for m in metas:
        cb = ", ".join(m["caught_by"]) or "**not caught**"
        lines.append("| %s | %s | %s | %s | %s |" % (m["seed"], m["property_broken"], m["change"].replace("|", "\\|"), cb, m["verdict"].replace("|", "\\|")))
        print("%-6s %-4s %-5s %s" % (m["seed"], m["property_broken"], "ok" if m["confirmed"].get("confirmed") else "UNCONFIRMED", cb))
    open(os.path.join(VERIF, "seeded", "INDEX.md"), "w").write("\n".join(lines) + "\n")
main()
