#!/opt/veriftools/pyvenv/bin/python3
"""Regenerates /verif/MANIFEST.json from the table below (kept in one place so that it is always valid)."""
import json, os, subprocess
HERE = os.path.dirname(os.path.dirname(os.path.abspath(__file__)))

TRUST = ("go/types + go/ssa (x/tools v0.29.0); the reviewed tables under /verif/tables; the reference tables under "
         "/verif/spec transcribed from the 24 May 2023 URL Standard; documented behaviour of bitset/strings/strconv/sort/utf8/idna/regexp/charmap; "
         "user-supplied option callbacks are pure. Static analysis of /repo's current source only: nothing is executed.")

# id -> (design_ref, technique, text)
CLAIMED = {}
NOT_APPLICABLE = {}

def claim(pid, ref, technique, text):
    CLAIMED[pid] = (ref, technique, text)

def na(pid, reason):
    NOT_APPLICABLE[pid] = reason

exec(open(os.path.join(HERE, "tools", "claims.py")).read())

def main():
    hooks_commits = subprocess.run(["git", "-C", "/repo", "log", "--format=%H %s", "c4b4211..HEAD"], capture_output=True, text=True).stdout.strip().splitlines()
    checks = []
    for pid in sorted(CLAIMED):
        ref, technique, text = CLAIMED[pid]
        checks.append({
            "property_id": pid,
            "quick_cmd": "./run.sh %s quick" % pid,
            "thorough_cmd": "./run.sh %s thorough" % pid,
            "evidence_file": "/verif/evidence/%s.json" % pid,
            "replay_cmd_template": "./bin/wucheck -explain {path}",
            "engine": "wucheck",
            "level_claimed": {"category": "other", "text": text, "design_ref": ref},
            "level_note": TRUST,
            "technique": technique,
        })
    m = {
        "version": 1,
        "setup_cmd": "cd /verif/checker && GOFLAGS=-mod=mod GOPROXY=off GOSUMDB=off GOTOOLCHAIN=local GOWORK=off go build -o /verif/bin/wucheck ./cmd/wucheck",
        "hooks": {
            "guard": "verif",
            "enable": "none needed: the checks read /repo's source as it is (no instrumentation, no build tag is ever set)",
            "baseline_off_cmd": "cd /repo && GOFLAGS=-mod=mod GOPROXY=off GOSUMDB=off go test -vet=off -count=1 ./...",
            "source_commits": [l.split()[0] for l in hooks_commits if " fix:" in " " + l.split(" ", 1)[1][:5] or l.split(" ", 1)[1].startswith("fix:")],
            "add_only": True,
        },
        "engines": [{
            "name": "wucheck",
            "path": "/verif/checker",
            "serves_properties": sorted(CLAIMED),
            "kind_free_text": "repository-specific static analyser (go/packages + go/types + go/ssa + VTA call graph): effect/ownership summaries, AST path enumeration of the parser state machine, constant-table evaluation against the standard's tables, pairing/dominance rules, error-discipline rules, panic/termination obligations",
        }],
        "checks": checks,
        "notes": "All checks are static: they load and type-check /repo's current working tree on every run and report a specific construct (file:line, function, rule, instance). No hooks exist in /repo; hooks.source_commits lists the fix: commits. Known findings: /verif/known_findings.json.",
        "not_applicable": [{"property_id": k, "reason": NOT_APPLICABLE[k]} for k in sorted(NOT_APPLICABLE)],
    }
    with open(os.path.join(HERE, "MANIFEST.json"), "w") as f:
        json.dump(m, f, indent=1)
        f.write("\n")
    import jsonschema
    jsonschema.validate(m, json.load(open("/root/.vp/MANIFEST.schema.json")))
    ids = set(CLAIMED) | set(NOT_APPLICABLE)
    want = {json.loads(l)["id"] for l in open(os.path.join(HERE, "properties.jsonl"))}
    assert ids == want, (ids ^ want)
    print("MANIFEST.json: %d claimed, %d not applicable, valid" % (len(CLAIMED), len(NOT_APPLICABLE)))

main()
