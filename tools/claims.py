# Claims per property: claim(id, design section, technique, level text) or na(id, reason).
# This file is exec'd by mkmanifest.py.

EFF = "interprocedural may-mutate / return-closure summaries over SSA (access paths, VTA call graph)"

claim("C12", "DESIGN §3.2, §3.4, §4 C12", "SSA effect summaries + post-dominance pairing (static)",
      "Decides, for every interleaving because each fact holds per call: every list stored into a URL's searchParams field has its back-pointer on that very URL (EFF-backptr). Does not decide that update()/init() compute the right strings.")
claim("C13", "DESIGN §3.2, §4 C13", EFF,
      "Decides for all inputs and histories: resolving never writes memory reachable from the base (EFF-read on BasicParser's base argument, (*Url).Parse, Clone); the results of Clone, (*Url).Parse and BasicParser reach no memory of the original/base except frozen configuration and referents that are never written (EFF-result); a cloned parameter list writes through to the clone (EFF-backptr). Sound modulo the external-call table; does not decide that the operated-on value reflects the operations.")
claim("C14", "DESIGN §3.2, §4 C14", EFF,
      "Decides for all schedules and inputs: no function other than a package initialiser writes memory reachable from a package-level variable (EFF-globals); no exported entry point writes a pre-existing parser/options/profile/encode-set/bitset object (EFF-config); the read API writes nothing reachable from its receiver or base (EFF-read); profile callbacks are write-free (EFF-pure); reachable code uses no map iteration, time, randomness, goroutines or channels (EFF-determ) - hence no data race and schedule-independent results. (*Url).SearchParams() is a lazily-initialising accessor and is excluded (reported in DESIGN). Thread-safety inside idna/regexp/charmap is trusted.")

for pid in ["C01","C02","C03","C04","C05","C06","C07","C08","C09","C10","C11","C15","C16","C18","C19","C20"]:
    na(pid, "static check designed (DESIGN §4) but not built yet in this commit; will be claimed when its rules are implemented")
na("C17", "idempotence relates two complete runs over all inputs and has no structural clause of its own that is a necessary condition (DESIGN §6); no runtime double-canonicalisation is substituted")

# --- C15 ---
del NOT_APPLICABLE["C15"]
claim("C15", "DESIGN §3.3, §4 C15", "SSA decision-DAG truth table + def-use error discipline (static)",
      "Decides for all inputs and the four diagnostic configurations: the two diagnostics options are read only inside the three handlers (ERR-ni); each handler records iff reporting is on and returns its error iff failure or fail-on-validation-error, by an 8-row truth table over its extracted decision DAG (ERR-shape); every non-nil result of a handler or of a function deriving its error from one aborts the caller or is wrapped as a cause (ERR-callsite), so the flags can only change behaviour by aborting; every error reaching the result of a parse is a handler-built *ValidationError with a declared non-empty type (ERR-origin, ERR-access); the missing-scheme type the canonicalizer keys on is emitted at exactly one failure site (ERR-xpkg). Under fail-on-validation-error the returned record deliberately carries failure=false; no rule is armed against that.")

# --- SM / COST based (first clauses; texts are extended as rules are added) ---
SMT = "AST path enumeration of the parser state machine (3-valued conditions, rune-class refinement) compared with tables of the standard (static)"
for pid in ["C01","C02","C05","C06","C07","C08","C20"]:
    del NOT_APPLICABLE[pid]
claim("C01", "DESIGN §3.1, §3.5, §4 C01", SMT,
      "Decides for all inputs and bases: on every path of every state clause the components inherited from the base, nulled or reset equal the standard's table (SM-inherit), and the set of 'return failure' points of the URL, host, IPv4 and IPv6 parsers - each really aborting - equals the standard's (SM-failpoints). Does not decide per-character behaviour inside a state, IPv4/IPv6 arithmetic and serialisation, path shortening details, IDNA.")
claim("C02", "DESIGN §3.1, §3.7, §4 C02", SMT + " + termination ranking",
      "Decides for all inputs, option values and call histories: the main loop has a ranking (head advances, exits on eof, no path that stays rewinds, state graph acyclic: SM-rank); base is never dereferenced when nil (SM-base); url.query is non-nil wherever it is stored through (SM-query); a parse returns a non-nil URL or a non-nil error (SM-result). Does not decide resource exhaustion or panics inside dependencies.")
claim("C05", "DESIGN §3.1, §4 C05", SMT,
      "Decides for every URL state and every value: the set of primary components each setter's state-override run of the parser is able to change equals the set the standard's setter may change, and only the setter's states run (SM-footprint). Does not decide the resulting values.")
claim("C06", "DESIGN §3.1, §3.9, §4 C06", SMT,
      "Decides for all bases and references: a '#f' reference against an opaque base inherits exactly scheme, path and query and is the only accepted relative form (no-scheme rows of SM-inherit / SM-failpoints); '?q', '#f' and empty references inherit exactly scheme, credentials, host, port, path (and query) (relative rows); a scheme-less reference takes the base's scheme on every path. Does not decide that the serialization of u resolves to u.")
claim("C07", "DESIGN §3.1, §3.9, §4 C07", SMT,
      "Decides: the rejection points of the IPv4 parser are exactly the standard's and each aborts (SM-failpoints rows of parseIPv4/parseIPv4Number). Does not decide radix detection, value assembly, serialisation.")
claim("C08", "DESIGN §3.1, §3.9, §4 C08", SMT,
      "Decides: every validation error of the IPv6 parser is a failure that aborts, and the 13 failure points are the standard's (SM-failpoints rows of parseIPv6, IPv6Unclosed). Does not decide piece arithmetic, compression choice, canonical text.")
claim("C20", "DESIGN §3.8, §4 C20", "SSA loop analysis (natural loops, constant bounds, self-feeding concatenations) + state-machine path facts (static)",
      "Decides the absence of the two super-linear mechanisms the anchors name: no string is accumulated by concatenation around an input-dependent loop (COST-concat), no conversion copies an open-ended slice or a loop-invariant string inside such a loop and O(remaining-input) cursor helpers run only on paths that leave their state (COST-copy, SM-onevisit). Does not decide the bound itself (amortised re-scans, allocation volume, cost inside dependencies).")


# --- remaining properties ---
for pid in ["C03","C04","C09","C10","C11","C16","C18","C19"]:
    del NOT_APPLICABLE[pid]
claim("C03", "DESIGN §3.4, §3.5, §4 C03", "constant-table evaluation as interval sets + SSA must-pass-through (static)",
      "Decides two necessary conditions only: no default component set leaves unencoded a code point that would end, or be trimmed from, that component when the serialization is parsed again (TAB-closure); every setter path that nulls query or fragment strips an opaque path's trailing spaces when both are null (PAIR-strip). Does not decide the round trip itself (host serializers as fixed points of the host parser, the '/.' guard, IDNA, setter histories).")
claim("C04", "DESIGN §3.4, §3.5, §4 C04", "state-machine path facts + SSA pairing + table comparison (static)",
      "Decides: default-port elision follows every store of a new port and every scheme change under an override on every path (PAIR-port); the 'cannot have credentials/port' and opaque-path guards are shared by the sibling setters (PAIR-guards); component sets and forbidden sets are at least the standard's and default ports are the standard's (TAB-super, TAB-forbidden, TAB-schemes). Does not decide the getter-composition identities nor value-level invariants.")
claim("C09", "DESIGN §3.9, §4 C09", "SSA def-use and dominance on a CFG pruned by the handler summary (static)",
      "Decides: percent-decoding precedes ToASCII, the forbidden-domain scan ranges over the ToASCII result and dominates every non-lax success return and the IPv4 test (FLOW-hostpipe); the forbidden-domain set is at least the standard's (TAB-forbidden). Does not decide UTS #46 behaviour, case independence, the localhost rule.")
claim("C10", "DESIGN §3.5, §3.2, §4 C10", "constant-table evaluation + membership predicates as interval sets over all 0x110000 code points (static)",
      "Decides completely: membership of the six named sets for all code points equals the standard's and the byte and rune predicates agree (TAB-sets); default option sets are the standard's (TAB-defaults); deriving a set returns a fresh set and never writes its parent (EFF-derive, TAB-ctor); named sets and bitsets are never written after initialisation (EFF-globals); escapes use upper-case hex in all encoder copies (TAB-hex). Does not decide the string-level codec laws.")
claim("C11", "DESIGN §3.5, §3.6, §3.9, §4 C11", "SSA def-use ordering + table comparison (static)",
      "Decides: '+' is translated before percent-decoding for name and value (FLOW-urlenc); pairs split on '&' and at the first '=' (TAB-urlsplit); sorting is stable with the standard's comparators (OPT-sortcmp); the serializer's escape set must contain & = + % (TAB-urlenc - a known finding, see known_findings.json). Does not decide list semantics of append/delete/set/get nor UTF-8 replacement.")
claim("C16", "DESIGN §3.6, §4 C16", "SSA pattern rules on option closures, control-dependence facts in the canonicalizer (static)",
      "Decides: each With* constructor stores exactly the field its name spells, constructors and fields are in bijection (OPT-bij); NewParser/New apply every option unconditionally to the fresh object they return (OPT-apply); each post-processing step is the unconditional setter call under exactly its flag and nothing runs in an option-less profile (OPT-canon); the default-scheme retry has exactly its guard (OPT-retry, ERR-xpkg); parser and profile agree on parameter special cases (OPT-sibling); defaults are the standard's (TAB-defaults); each component writer uses the option set of its component and scheme class (TAB-component). Does not decide conservative-extension claims that need value reasoning.")
claim("C18", "DESIGN §3.9, §4 C18", "SSA control-dependence facts in the canonicalizer + table comparison (static)",
      "Decides, per listed variation, that the normalising mechanism is present on every path: every component goes through decode-to-fixpoint-then-encode under benign guards only (FLOW-canon); dot-segment literals incl. %2e forms, tab/newline and whitespace sets (TAB-dots, TAB-ws); default-port elision (PAIR-port). Does not decide that two concrete spellings produce the same string.")
claim("C19", "DESIGN §3.4, §4 C19", "SSA store pairing per cache group (static)",
      "Decides: port and decodedPort are stored together at every site; no cache exists for the address kind and IsIPv4/IsIPv6 derive from the host; 'present' decisions test the primary's nil-ness, never a cache sentinel (PAIR-group); default ports are the standard's (TAB-schemes). Does not decide the textual definition of a dotted-decimal IPv4 address used by the derived accessor.")
