# Claims per property: claim(id, design section, technique, level text) or na(id, reason).
# This file is exec'd by mkmanifest.py.

EFF = "interprocedural may-mutate / return-closure summaries over SSA (access paths, VTA call graph)"

claim("C12", "DESIGN §3.2, §3.4, §4 C12", "SSA effect summaries + post-dominance pairing (static)",
      "Decides, for every interleaving because each fact holds per call: every list stored into a URL's searchParams field has its back-pointer on that very URL (EFF-backptr). Does not decide that update()/init() compute the right strings.")
claim("C13", "DESIGN §3.2, §4 C13", EFF,
      "Decides for all inputs and histories: resolving never writes memory reachable from the base (EFF-read on BasicParser's base argument, (*Url).Parse, Clone); the results of Clone, (*Url).Parse and BasicParser reach no memory of the original/base except frozen configuration and referents that are never written (EFF-result); a cloned parameter list writes through to the clone (EFF-backptr). Sound modulo the external-call table; does not decide that the operated-on value reflects the operations.")
claim("C14", "DESIGN §3.2, §4 C14", EFF,
      "Decides for all schedules and inputs: no function other than a package initialiser writes memory reachable from a package-level variable (EFF-globals); no exported entry point writes a pre-existing parser/options/profile/encode-set/bitset object (EFF-config); the read API writes nothing reachable from its receiver or base (EFF-read); profile callbacks are write-free (EFF-pure); reachable code uses no map iteration, time, randomness, goroutines or channels (EFF-determ) - hence no data race and schedule-independent results. (*Url).SearchParams() is a lazily-initialising accessor and is excluded (reported in DESIGN). Thread-safety inside idna/regexp/charmap is trusted.")

for pid in ["C01","C02","C03","C04","C05","C06","C07","C08","C09","C10","C11","C15","C16","C18","C19","C20"]:
    na(pid, "static check designed (DESIGN §4) but not built yet in this commit; will be claimed when its rules are implemented")
na("C17", "idempotence relates two complete runs over all inputs and has no structural clause of its own that is a necessary condition (DESIGN §6); no runtime double-canonicalisation is substituted")
