# Claims per property: claim(id, design section, technique, level text) or na(id, reason).
# This file is exec'd by mkmanifest.py.

EFF = "interprocedural may-mutate / return-closure summaries over SSA (access paths, VTA call graph)"

claim("C12", "DESIGN §3.2, §3.4, §4 C12", "SSA effect summaries + post-dominance pairing (static)",
      "Decides, for every interleaving because each fact holds per call: every list stored into a URL's searchParams field has its back-pointer on that very URL (EFF-backptr). Does not decide that update()/init() compute the right strings.")
claim("C13", "DESIGN §3.2, §4 C13", EFF,
      "Decides for all inputs and histories: resolving never writes memory reachable from the base (EFF-read on BasicParser's base argument, (*Url).Parse, Clone); the results of Clone, (*Url).Parse and BasicParser reach no memory of the original/base except frozen configuration and referents that are never written (EFF-result); a cloned parameter list writes through to the clone (EFF-backptr). Sound modulo the external-call table; does not decide that the operated-on value reflects the operations.")
claim("C14", "DESIGN §3.2, §4 C14", EFF,
      "Decides for all schedules and inputs: no function other than a package initialiser writes memory reachable from a package-level variable (EFF-globals); no exported entry point writes a pre-existing parser/options/profile/encode-set/bitset object (EFF-config); the read API writes nothing reachable from its receiver or base (EFF-read); profile callbacks are write-free (EFF-pure); reachable code uses no map iteration, time, randomness, goroutines or channels (EFF-determ) - hence no data race and schedule-independent results. (*Url).SearchParams() is a lazily-initialising accessor and is excluded (reported in DESIGN). Thread-safety inside idna/regexp/charmap is trusted.")

for pid in ["C01","C02","C03","C04","C05","C06","C07","C08","C09","C10","C11","C15","C16","C18","C19","C20"]:
    na(pid, "static check designed (DESIGN §4) but not built yet in this commit; will be claimed when its rules are implemented")
na("C17", "idempotence relates two complete runs over all inputs and has no structural clause of its own that is a necessary condition (DESIGN §6); no runtime double-canonicalisation is substituted")

# --- C15 ---
del NOT_APPLICABLE["C15"]
claim("C15", "DESIGN §3.3, §4 C15", "SSA decision-DAG truth table + def-use error discipline (static)",
      "Decides for all inputs and the four diagnostic configurations: the two diagnostics options are read only inside the three handlers (ERR-ni); each handler records iff reporting is on and returns its error iff failure or fail-on-validation-error, by an 8-row truth table over its extracted decision DAG (ERR-shape); every non-nil result of a handler or of a function deriving its error from one aborts the caller or is wrapped as a cause (ERR-callsite), so the flags can only change behaviour by aborting; every error reaching the result of a parse is a handler-built *ValidationError with a declared non-empty type (ERR-origin, ERR-access); the missing-scheme type the canonicalizer keys on is emitted at exactly one failure site (ERR-xpkg). Under fail-on-validation-error the returned record deliberately carries failure=false; no rule is armed against that.")
