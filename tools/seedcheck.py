#!/usr/bin/env python3
"""Confirms a seeded change delivered by a sub-agent and runs the checks against it.
usage: seedcheck.py <OUT/X dir> <seed id> [--keep]     (writes /verif/seeded/<seed id>/ when confirmed and --keep)"""
import json, os, re, shutil, subprocess, sys, tempfile
VERIF = os.path.dirname(os.path.dirname(os.path.abspath(__file__)))
ENV = dict(os.environ, GOFLAGS="-mod=mod", GOPROXY="off", GOSUMDB="off", GOTOOLCHAIN="local", GOWORK="off")

def sh(cmd, cwd, timeout=600):
    try:
        r = subprocess.run(cmd, cwd=cwd, env=ENV, capture_output=True, text=True, timeout=timeout)
        return r.returncode, (r.stdout + r.stderr)
    except subprocess.TimeoutExpired:
        return 124, "TIMEOUT"

def main():
    src, sid = sys.argv[1], sys.argv[2]
    keep = "--keep" in sys.argv
    patch = os.path.join(src, "patch.diff")
    demo = os.path.join(src, "demo_test.go")
    first = open(demo).readline()
    m = re.search(r"place in:\s*(\S+)", first)
    pkgdir = (m.group(1) if m else "url/").strip("/")
    d = tempfile.mkdtemp(prefix="wu-seed-")
    res = {"seed": sid, "package_dir": pkgdir}
    try:
        subprocess.run(["rsync", "-a", "--exclude", ".git", "/repo/", d + "/"], check=True)
        # demo on the unchanged tree
        shutil.copy(demo, os.path.join(d, pkgdir, "zz_seed_demo_test.go"))
        rc, out = sh(["go", "test", "-vet=off", "-count=1", "-run", "Demo", "./" + pkgdir + "/"], d, 120)
        res["demo_without_change"] = "pass" if rc == 0 else "FAIL"
        os.remove(os.path.join(d, pkgdir, "zz_seed_demo_test.go"))
        rc, out = sh(["git", "apply", "--unsafe-paths", "--directory=" + d, patch], "/")
        if rc != 0:
            rc, out = sh(["patch", "-p1", "-i", patch], d)
        res["patch_applies"] = rc == 0
        if rc != 0:
            print(json.dumps(res, indent=1)); print(out[:500]); return
        rc, out = sh(["go", "build", "./..."], d)
        res["builds"] = rc == 0
        rc, out = sh(["go", "test", "-vet=off", "-count=1", "./..."], d, 300)
        res["suite_with_change"] = "pass" if rc == 0 else "FAIL"
        shutil.copy(demo, os.path.join(d, pkgdir, "zz_seed_demo_test.go"))
        rc, out = sh(["go", "test", "-vet=off", "-count=1", "-run", "Demo", "./" + pkgdir + "/"], d, 120)
        res["demo_with_change"] = "pass" if rc == 0 else "FAIL"
        os.remove(os.path.join(d, pkgdir, "zz_seed_demo_test.go"))
        ev = tempfile.mkdtemp(prefix="wu-seed-ev-")
        rc, out = sh([os.environ.get("WUCHECK", os.path.join(VERIF, "bin", "wucheck")), "-prop", "all", "-repo", d, "-verif", VERIF, "-out", ev], VERIF)
        shutil.rmtree(ev, ignore_errors=True)
        viol, cur = [], None
        for line in out.splitlines():
            mm = re.match(r"property (C\d+) ", line)
            if mm: cur = mm.group(1)
            mm = re.match(r"\s+(VIOLATED|UNDECIDED) (\S+): (\S+)", line)
            if mm: viol.append([cur, mm.group(2), mm.group(3)])
            if line.strip().startswith("INTERNAL"): viol.append([cur, "INTERNAL", line.strip()[:160]])
        res["checks_fired"] = viol
        res["confirmed"] = bool(res["builds"] and res["suite_with_change"] == "pass" and res["demo_with_change"] == "FAIL" and res["demo_without_change"] == "pass")
        print(json.dumps(res, indent=1))
        if keep and res["confirmed"]:
            dst = os.path.join(VERIF, "seeded", sid)
            os.makedirs(dst, exist_ok=True)
            shutil.copy(patch, os.path.join(dst, "patch.diff"))
            shutil.copy(demo, os.path.join(dst, "demo_test.go"))
            if os.path.exists(os.path.join(src, "README.md")):
                shutil.copy(os.path.join(src, "README.md"), os.path.join(dst, "README.md"))
            json.dump(res, open(os.path.join(dst, "result.json"), "w"), indent=1)
    finally:
        shutil.rmtree(d, ignore_errors=True)
main()
