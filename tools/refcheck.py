#!/usr/bin/env python3
"""Applies a behaviour-preserving refactoring (patch.diff) to a scratch copy of /repo, confirms build + suite, and runs
every check against it: any report is a false alarm (or an accepted fail-closed case). usage: refcheck.py <patch.diff>..."""
import os, re, shutil, subprocess, sys, tempfile
VERIF = os.path.dirname(os.path.dirname(os.path.abspath(__file__)))
ENV = dict(os.environ, GOFLAGS="-mod=mod", GOPROXY="off", GOSUMDB="off", GOTOOLCHAIN="local", GOWORK="off")
for patch in sys.argv[1:]:
    d = tempfile.mkdtemp(prefix="wu-ref-")
    try:
        subprocess.run(["rsync", "-a", "--exclude", ".git", "/repo/", d + "/"], check=True)
        r = subprocess.run(["patch", "-p1", "-s", "-i", os.path.abspath(patch)], cwd=d, capture_output=True, text=True)
        if r.returncode != 0:
            print(patch, "PATCH FAILED", r.stdout[:200]); continue
        b = subprocess.run(["go", "build", "./..."], cwd=d, env=ENV, capture_output=True, text=True)
        t = subprocess.run(["go", "test", "-vet=off", "-count=1", "./..."], cwd=d, env=ENV, capture_output=True, text=True)
        ev = tempfile.mkdtemp(prefix="wu-ref-ev-")
        w = subprocess.run([os.environ.get("WUCHECK", os.path.join(VERIF, "bin", "wucheck")), "-prop", "all", "-repo", d, "-verif", VERIF, "-out", ev], env=ENV, capture_output=True, text=True)
        shutil.rmtree(ev, ignore_errors=True)
        alarms, cur = [], None
        for line in w.stdout.splitlines():
            mm = re.match(r"property (C\d+) ", line)
            if mm: cur = mm.group(1)
            mm = re.match(r"\s+(VIOLATED|UNDECIDED) (\S+): (\S+)(.*)", line)
            if mm: alarms.append((cur, mm.group(2), mm.group(3), mm.group(4)[:150]))
            if line.strip().startswith("INTERNAL"): alarms.append((cur, "INTERNAL", line.strip()[:200], ""))
        print("%-28s build=%s suite=%s alarms=%d" % (patch.replace("/tmp/", ""), b.returncode == 0, t.returncode == 0, len(alarms)))
        seen = set()
        for a in alarms:
            k = (a[1], a[2])
            if k in seen: continue
            seen.add(k)
            print("     ", a[0], a[1], a[2], a[3])
    finally:
        shutil.rmtree(d, ignore_errors=True)
