#!/bin/sh
# Full regression of the machinery itself (not one of the registered checks):
#   1. every claimed check is silent on /repo            (run.sh, quick)
#   2. every self-test mutant is reported as expected    (tools/selftest.py)
#   3. the seeded property-breaking changes: tally       (tools/seedsummary.py)
#   4. the behaviour-preserving refactorings raise nothing (tools/refcheck.py equiv/*/patch.diff)
# A frozen copy of the checker binary is used for 2-4 so that rebuilding bin/wucheck meanwhile does not disturb them.
set -u
VERIF="$(cd "$(dirname "$0")/.." && pwd)"
cd "$VERIF"
J="${J:-8}"
rc=0
for p in $(python3 -c "import json;print(' '.join(c['property_id'] for c in json.load(open('MANIFEST.json'))['checks']))" 2>/dev/null || echo); do
  ./run.sh "$p" > /tmp/regress.$p.log 2>&1 || { echo "CHECK FAILS ON /repo: $p"; rc=1; }
done
mkdir -p /tmp/wbin && cp bin/wucheck /tmp/wbin/wucheck.regress
export WUCHECK=/tmp/wbin/wucheck.regress
python3 tools/selftest.py -j "$J" | tail -1
python3 tools/seedsummary.py | grep -c "not caught" | sed 's/^/seeds not caught: /'
python3 tools/refcheck.py equiv/*/patch.diff | grep -v "alarms=0" | sed 's/^/REFACTORING ALARM: /'
rm -f /tmp/wbin/wucheck.regress
exit $rc
