#!/bin/sh
# Usage: run.sh <property id> [quick|thorough]     (cwd-independent; analyses /repo's current working tree)
# The deciding step is bin/wucheck: it loads and type-checks /repo's source on every run (go/packages + go/ssa) and
# never executes it.  The checker binary itself is (re)built from /verif/checker when missing or stale.
set -u
VERIF="$(cd "$(dirname "$0")" && pwd)"
export GOFLAGS=-mod=mod GOPROXY=off GOSUMDB=off GOTOOLCHAIN=local GOWORK=off CGO_ENABLED=0
unset GOARCH GOOS
ID="${1:?property id}"
TIER="${2:-${VERIF_TIER:-quick}}"
REPO="${WUCHECK_REPO:-/repo}"
OUT="${WUCHECK_OUT:-$VERIF/evidence}"
if [ ! -x "$VERIF/bin/wucheck" ] || [ -n "$(find "$VERIF/checker" -name '*.go' -newer "$VERIF/bin/wucheck" 2>/dev/null | head -1)" ]; then
  (cd "$VERIF/checker" && go build -o "$VERIF/bin/wucheck" ./cmd/wucheck) || { echo "VIOLATION property=$ID replay=$VERIF/evidence/violations/$ID.json (checker build failed)"; exit 1; }
fi
if [ "$TIER" = "thorough" ]; then
  exec "$VERIF/thorough.sh" "$ID" "$REPO" "$OUT"
fi
exec "$VERIF/bin/wucheck" -prop "$ID" -tier "$TIER" -repo "$REPO" -verif "$VERIF" -out "$OUT"
