#!/bin/sh
# thorough tier: the same rules with the deeper analysis settings (access-path depth 4, finer SM contexts),
# repeated under GOARCH=386 (32-bit int, different build-tagged dependency files); verdicts must agree.
set -u
VERIF="$(cd "$(dirname "$0")" && pwd)"
ID="$1"; REPO="$2"; OUT="$3"
TMPOUT="$(mktemp -d)"
trap 'rm -rf "$TMPOUT"' EXIT
"$VERIF/bin/wucheck" -prop "$ID" -tier thorough -repo "$REPO" -verif "$VERIF" -out "$TMPOUT" -goarch 386 > "$TMPOUT/386.log" 2>&1
RC386=$?
# liveness self-test of the rules serving this property (informational; scratch copies under /tmp, removed afterwards)
python3 "$VERIF/tools/selftest.py" --prop "$ID" --json "$TMPOUT/liveness.json" -j 8 > "$TMPOUT/liveness.log" 2>&1 || true
# the seeded property-breaking changes kept for this property: does the check of this property report them? (informational)
python3 "$VERIF/tools/seedlive.py" --prop "$ID" --json "$TMPOUT/seeds.json" -j 4 > "$TMPOUT/seeds.log" 2>&1 || true
"$VERIF/bin/wucheck" -prop "$ID" -tier thorough -repo "$REPO" -verif "$VERIF" -out "$OUT" -also "386:$RC386:$TMPOUT/386.log" -embed "liveness:$TMPOUT/liveness.json,seeded_changes:$TMPOUT/seeds.json"
